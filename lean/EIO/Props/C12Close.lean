import EIO.Lemmas.SesOps
import EIO.Props.Session
/-
C12: `Close(true)` (what `Server.Close` calls on every registered session)
closes a live session at once and takes it out of the client table.

Proved here under one explicit hypothesis about the state: the session's
current transport is not already closed (`LinkOK`). That hypothesis is an
invariant of the model we have not proved for every history (it needs the
role/transport linkage carried through every function); the driver evaluates it
in every world of every scenario of the correspondence and prints a token when
it fails, so a history that falsifies it would show up as a disagreement.
The theorem is therefore named `…_partial`.
-/
namespace EIO.Ses
open EIO EIO.Codec

/-- a session that is not closed has a current transport, and that transport is not closed -/
def LinkOK (w : World) (sid : Nat) : Prop :=
  (w.sock sid).tr < w.trs.size ∧ (w.tr (w.sock sid).tr).rs ≠ .closed

instance (w : World) (sid : Nat) : Decidable (LinkOK w sid) := by unfold LinkOK; exact inferInstance

/-- `socket.OnClose` on a live session: it is closed afterwards -/
theorem sockOnClose_closed (f : Nat) (w : World) (sid : Nat) (reason : String)
    (hnc : (w.sock sid).rs ≠ .closed) (hsz : sid < w.socks.size) :
    ((sockOnClose (f + 1) w sid reason).sock sid).rs = .closed := by
  rw [sockOnClose]
  have hg : ¬ ((w.sock sid).rs = .closed ∨ w.socks.size ≤ sid) := by
    intro h; rcases h with h | h
    · exact hnc h
    · omega
  simp only [hg, if_false]
  generalize hw1 : (w.setSock sid fun s =>
    { s with rs := .closed, pingIntervalDue := none, pingTimeoutDue := none, packetsFn := [], sentCb := [] }) = w1
  have s1 : (w1.sock sid).rs = .closed := by rw [← hw1, sock_setSock]; simp [hsz]
  have v12 := clearTransportF_sameView f w1 sid
  generalize clearTransportF f w1 sid = w2 at v12
  have s2 : (w2.sock sid).rs = .closed := by rw [(v12.sock sid).rs]; exact s1
  have z2 : w2.socks.size = w.socks.size := by rw [v12.size, ← hw1]; simp
  generalize hw3 : ({ w2 with registry := w2.registry.filter (· ≠ sid) } : World) = w3
  have s3 : (w3.sock sid).rs = .closed := by rw [← hw3]; exact s2
  have z3 : w3.socks.size = w.socks.size := by rw [← hw3]; exact z2
  generalize hw4 : w3.sev sid (.close reason (w3.sock sid).rs) = w4
  have s4 : (w4.sock sid).rs = .closed := by rw [← hw4, sock_sev]; exact s3
  have z4 : w4.socks.size = w.socks.size := by rw [← hw4, socks_sev]; exact z3
  have v45 := candFail_sameView f w4 sid
  generalize candFail f w4 sid = w5 at v45
  have s5 : (w5.sock sid).rs = .closed := by rw [(v45.sock sid).rs]; exact s4
  rw [sock_setSock]
  split <;> simp [s5]

theorem closedW_of_pres {w w' : World} (p : Pres w w') (i : Inv w) (sid : Nat) (h : (w.sock sid).rs = .closed) :
    (w'.sock sid).rs = .closed := by
  have := (p i).2.rank sid
  rw [h] at this
  cases hr : (w'.sock sid).rs <;> simp [hr, RS.rank] at this ⊢

/-- the callback handed to `transport.Close` by `closeTransport` closes the session -/
theorem runCloseFn_closes (f : Nat) (w : World) (ti sid : Nat) (i : Inv w)
    (hfn : (w.tr ti).closeFn = some sid) (hsz : sid < w.socks.size) :
    ((runCloseFnF (f + 2) w ti).sock sid).rs = .closed := by
  rw [runCloseFnF]
  simp only [hfn]
  by_cases hc : (w.sock sid).rs = .closed
  · have p : Pres w (sockOnClose (f + 1) (w.setTr ti fun t => { t with closeFn := none }) sid "forced_close") := by
      apply pr_sockOnClose; apply pr_setTr; exact Pres.refl _
    exact closedW_of_pres p i sid hc
  · exact sockOnClose_closed f _ sid _ (by simpa using hc) (by simpa using hsz)

/-- `Close(true)` on a live session whose transport is not closed: the session is closed when the call returns -/
theorem appClose_discard_closes (w : World) (sid : Nat) (i : Inv w) (hsz : sid < w.socks.size)
    (hlive : (w.sock sid).rs = .open_ ∨ (w.sock sid).rs = .closing) (hlink : LinkOK w sid) :
    ((appClose w sid true).sock sid).rs = .closed := by
  have hnc : (w.sock sid).rs ≠ .closed := by rcases hlive with h | h <;> rw [h] <;> simp
  unfold appClose
  simp only [hlive, and_self, if_true]
  unfold closeTransport
  rw [closeTransportF]
  simp only [if_true, true_and]
  generalize hti : (w.sock sid).tr = ti
  have hlink' : (w.tr ti).rs ≠ .closed := by rw [← hti]; exact hlink.2
  have hin : ti < w.trs.size := by rw [← hti]; exact hlink.1
  generalize hw1 : (w.setTr ti fun t => { t with discarded := true }) = w1
  have p1 : Pres w w1 := by rw [← hw1]; exact pr_setTr _ _ (Pres.refl _)
  have i1 : Inv w1 := (p1 i).1
  have hs1 : (w1.sock sid).rs = (w.sock sid).rs := by rw [← hw1]; rfl
  have z1 : w1.socks.size = w.socks.size := by rw [← hw1]; rfl
  have ht1 : (w1.tr ti).rs = (w.tr ti).rs ∧ ((w1.tr ti).discarded = true ∨ w.trs.size ≤ ti) := by
    rw [← hw1, tr_setTr]
    split
    · exact ⟨rfl, Or.inl rfl⟩
    · rename_i h
      refine ⟨rfl, Or.inr ?_⟩
      apply Nat.le_of_not_lt; intro hlt; exact h ⟨rfl, hlt⟩
  split
  · -- an orderly close is already buffered on the transport
    exact sockOnClose_closed _ w1 sid _ (by rw [hs1]; exact hnc) (by rw [z1]; exact hsz)
  · rename_i hcl
    have hopen : (w1.tr ti).rs = .open_ := by
      cases h : (w1.tr ti).rs with
      | open_ => rfl
      | closing => exact absurd h hcl
      | closed => rw [ht1.1] at h; exact absurd h hlink'
    -- an index beyond the table reads the default transport: open, polling false …; rule it out by the discarded flag
    unfold trClose
    rw [trCloseF]
    have hnot : ¬ ((w1.tr ti).rs = .closed ∨ (w1.tr ti).rs = .closing) := by rw [hopen]; simp
    simp only [hnot, if_false]
    generalize hw2 : (w1.setTr ti fun t => { t with rs := .closing, closeFn := some sid }) = w2
    have p2 : Pres w w2 := by rw [← hw2]; exact pr_setTr _ _ p1
    have z2 : w2.socks.size = w.socks.size := by rw [← hw2]; simpa using z1
    · have hdisc : (w1.tr ti).discarded = true := by
        rcases ht1.2 with h | h
        · exact h
        · omega
      have hfn2 : (w2.tr ti).closeFn = some sid := by
        rw [← hw2, tr_setTr]; simp [← hw1, hin]
      split
      · -- polling
        have pa : Pres w (abortData w2 (w1.tr ti).dataReq) := pr_abortData _ p2
        have hfna : ((abortData w2 (w1.tr ti).dataReq).tr ti).closeFn = some sid := by
          unfold abortData; split <;> simp [hfn2]
        have za : (abortData w2 (w1.tr ti).dataReq).socks.size = w.socks.size := by
          unfold abortData; split <;> simp [World.answer, z2] <;> (try split) <;> simp [z2]
        generalize abortData w2 (w1.tr ti).dataReq = wa at pa hfna za
        split
        · have ps : Pres w (trSend wa ti [{ typ := .close }]) := pr_trSend _ _ pa
          have hc := runCloseFn_closes 9 (trSend wa ti [{ typ := .close }]) ti sid (ps i).1 (by simp [hfna]) (by simpa using (by rw [za]; exact hsz))
          have pr : Pres (trSend wa ti [{ typ := .close }]) (pollOnCloseF 11 (runCloseFnF 11 (trSend wa ti [{ typ := .close }]) ti) ti) := by
            apply pr_pollOnCloseF; apply pr_runCloseFnF; exact Pres.refl _
          have i2 := (ps i).1
          have pr2 : Pres (runCloseFnF 11 (trSend wa ti [{ typ := .close }]) ti) (pollOnCloseF 11 (runCloseFnF 11 (trSend wa ti [{ typ := .close }]) ti) ti) :=
            pr_pollOnCloseF _ _ (Pres.refl _)
          have i3 : Inv (runCloseFnF 11 (trSend wa ti [{ typ := .close }]) ti) := ((pr_runCloseFnF 11 ti (Pres.refl _)) i2).1
          exact closedW_of_pres pr2 i3 sid hc
        · have hc := runCloseFn_closes 9 wa ti sid (pa i).1 hfna (by rw [za]; exact hsz)
          have i3 : Inv (runCloseFnF 11 wa ti) := ((pr_runCloseFnF 11 ti (Pres.refl _)) (pa i).1).1
          exact closedW_of_pres (pr_pollOnCloseF 11 ti (Pres.refl _)) i3 sid hc
      · -- websocket / webtransport
        have hor : ((w1.tr ti).writable = true ∨ (w1.tr ti).discarded = true) := Or.inr hdisc
        simp only [hor, if_true]
        rw [wsCloseNowF]
        generalize hw3 : (w2.setTr ti fun t => { t with closeWait := false, closeTimerDue := none }) = w3
        have p3 : Pres w w3 := by rw [← hw3]; exact pr_setTr _ _ p2
        have hfn3 : (w3.tr ti).closeFn = some sid := by
          rw [← hw3, tr_setTr]; split <;> simp [hfn2]
        have z3 : w3.socks.size = w.socks.size := by rw [← hw3]; simpa using z2
        have hc := runCloseFn_closes 8 w3 ti sid (p3 i).1 hfn3 (by rw [z3]; exact hsz)
        have i4 : Inv (runCloseFnF 10 w3 ti) := ((pr_runCloseFnF 10 ti (Pres.refl _)) (p3 i).1).1
        have pr : Pres (runCloseFnF 10 w3 ti)
            (trOnCloseBaseF 10 ((runCloseFnF 10 w3 ti).setConn ((runCloseFnF 10 w3 ti).tr ti).conn fun x =>
              { x with serverOpen := false, ended := if x.ended.isNone ∧ x.clientOpen then some "close:1006:756e657870656374656420454f46" else x.ended }) ti) := by
          apply pr_trOnCloseBaseF; apply pr_setConn; exact Pres.refl _
        exact closedW_of_pres pr i4 sid hc

/-! ### for every history -/

/-- FULL STATEMENT (C12, shutdown half): after `Server.Close` every session is closed and the client table
    is empty. What is proved below is the per-session core under `LinkOK`. -/
def C12_shutdown_statement : Prop :=
  ∀ (o : Opts) (ops : List Op), (run o (ops ++ [.shutdown])).registry = []

/-- in every reachable world, `Close(true)` on a registered session whose transport link is intact closes it
    at once and takes it out of the client table -/
theorem c12_discard_closes_partial (o : Opts) (ops : List Op) (sid : Nat)
    (hlive : (run o ops).fault = none)
    (hreg : sid ∈ (run o ops).registry) (hlink : LinkOK (run o ops) sid) :
    ((run o (ops ++ [.close sid true])).sock sid).rs = .closed ∧ sid ∉ (run o (ops ++ [.close sid true])).registry := by
  have i := reach_inv o ops
  obtain ⟨hnc, hsz, _⟩ := i.regLive sid hreg
  have i' := reach_inv o (ops ++ [.close sid true])
  have hstep : run o (ops ++ [.close sid true]) = step (run o ops) (.close sid true) := by
    rw [run_append]; rfl
  have hclosed : ((run o (ops ++ [.close sid true])).sock sid).rs = .closed := by
    rw [hstep]
    unfold step
    simp only [hlive, Option.isSome_none, Bool.false_eq_true, if_false]
    have hl : ((run o ops).sock sid).rs = .open_ ∨ ((run o ops).sock sid).rs = .closing := by
      unfold closedW at hnc
      cases h : ((run o ops).sock sid).rs with
      | opening => exact absurd h (i.regOpen sid hreg)
      | open_ => exact Or.inl rfl
      | closing => exact Or.inr rfl
      | closed => exact absurd h hnc
    exact appClose_discard_closes _ sid i hsz hl hlink
  exact ⟨hclosed, fun hm => (i'.regLive sid hm).1 hclosed⟩

/-- non-vacuity: a registered websocket session and a registered polling session satisfy the hypotheses -/
example :
    let w := run {} [.hsWebsocket 4 false, .hsPolling 4 false none, .settle]
    w.fault = none ∧ 0 ∈ w.registry ∧ 1 ∈ w.registry ∧ LinkOK w 0 ∧ LinkOK w 1 := by decide +kernel

end EIO.Ses
