import EIO.Model.Containers
/-
C20 (Slice): every method, executed on Go slices with spare capacity and
in-place appends, behaves as the plain sequence operation it documents; invalid
indices and counts are errors (the model has no panic outcome because no
operation reaches `make` with a negative length or an out-of-range index);
storage is never shared with a slice passed in by the caller.
-/
namespace EIO.Cont
open EIO

theorem GS.view_length (g : GS) (h : g.WF) : g.view.length = g.len := by
  unfold GS.view GS.WF at *; simp; omega

theorem GS.append_spec (g : GS) (xs : List Int) (h : g.WF) :
    (g.append xs).view = g.view ++ xs ∧ (g.append xs).WF ∧ (g.append xs).len = g.len + xs.length := by
  unfold GS.append GS.view GS.WF at *
  have ht : (g.arr.take g.len).length = g.len := by simp; omega
  split
  · rename_i hfit
    refine ⟨?_, ?_, rfl⟩
    · simp only
      rw [List.append_assoc, List.take_append, ht]
      simp [List.take_append, ht]
      rw [List.take_of_length_le (by simp; omega)]
    · simp; omega
  · refine ⟨?_, ?_, rfl⟩
    · simp only
      rw [List.take_of_length_le (by simp; omega)]
    · simp; omega

/-- `Push` appends -/
theorem push_refines (g : GS) (xs : List Int) (h : g.WF) :
    (push g xs).1.view = g.view ++ xs ∧ (push g xs).2 = (g.view ++ xs).length ∧ (push g xs).1.WF := by
  obtain ⟨h1, h2, h3⟩ := GS.append_spec g xs h
  have hv : g.view.length = g.len := GS.view_length g h
  exact ⟨h1, by simp [push, h3, hv], h2⟩

/-- `Unshift` prepends -/
theorem unshift_refines (g : GS) (xs : List Int) (h : g.WF) :
    (unshift g xs).1.view = xs ++ g.view ∧ (unshift g xs).2 = (xs ++ g.view).length ∧
    (unshift g xs).1.WF := by
  unfold unshift
  have hm : GS.WF ⟨List.replicate (xs.length + g.len) 0, 0⟩ := by simp [GS.WF]
  obtain ⟨a1, a2, a3⟩ := GS.append_spec _ xs hm
  obtain ⟨b1, b2, b3⟩ := GS.append_spec _ g.view a2
  have hv : g.view.length = g.len := GS.view_length g h
  refine ⟨?_, ?_, b2⟩
  · simp only; rw [b1, a1]; simp [GS.view]
  · simp only; rw [b3, a3]; simp [hv]

theorem view_getD (g : GS) (i : Nat) (h : g.WF) (hi : i < g.len) :
    g.arr.getD i 0 = g.view.getD i 0 := by
  unfold GS.view
  simp [List.getD_eq_getElem?_getD, List.getElem?_take, hi]

/-- `Pop` / `Shift` take the last / first element, or report the empty slice -/
theorem pop_refines (g : GS) (h : g.WF) :
    pop g = (if g.view = [] then (Except.error SErr.empty : Except SErr (Int × GS))
            else .ok (g.view.getD (g.view.length - 1) 0, ⟨g.arr, g.len - 1⟩)) ∧
    (g.len ≠ 0 → (GS.view ⟨g.arr, g.len - 1⟩) = g.view.dropLast) := by
  have hv : g.view.length = g.len := GS.view_length g h
  constructor
  · unfold pop
    by_cases h0 : g.len = 0
    · have : g.view = [] := List.eq_nil_of_length_eq_zero (by omega)
      simp [h0, this]
    · have : g.view ≠ [] := fun e => h0 (by rw [← hv, e]; rfl)
      simp only [h0, if_false, this, GS.upto]
      rw [view_getD g (g.len - 1) h (by omega), hv]
  · intro h0
    unfold GS.view
    simp only
    have hWF : g.len ≤ g.arr.length := h
    rw [List.dropLast_eq_take, List.take_take]
    congr 1
    simp
    omega

theorem shift_refines (g : GS) (h : g.WF) :
    shift g = (if g.view = [] then (Except.error SErr.empty : Except SErr (Int × GS))
               else .ok (g.view.getD 0 0, g.from 1)) ∧
    (g.len ≠ 0 → (g.from 1).view = g.view.tail ∧ (g.from 1).WF) := by
  have hv : g.view.length = g.len := GS.view_length g h
  constructor
  · unfold shift
    by_cases h0 : g.len = 0
    · have : g.view = [] := List.eq_nil_of_length_eq_zero (by omega)
      simp [h0, this]
    · have : g.view ≠ [] := fun e => h0 (by rw [← hv, e]; rfl)
      simp only [h0, if_false, this]
      rw [view_getD g 0 h (by omega)]
  · intro h0
    unfold GS.from GS.view GS.WF at *
    constructor
    · simp only
      rw [← List.drop_one, List.drop_take]
    · simp; omega

/-- `Get` / `Set`: an index outside `[0, len)` is an error, never a panic -/
theorem get_refines (g : GS) (i : Int) (h : g.WF) :
    get g i = if i < 0 ∨ i ≥ g.view.length then (Except.error SErr.index : Except SErr Int)
              else .ok (g.view.getD i.toNat 0) := by
  have hv : g.view.length = g.len := GS.view_length g h
  unfold get
  rw [hv]
  split
  · rfl
  · rename_i hn
    rw [view_getD g i.toNat h (by omega)]

theorem set_refines (g : GS) (i v : Int) (h : g.WF) :
    set g i v = (if i < 0 ∨ i ≥ g.view.length then (Except.error SErr.index : Except SErr GS)
                 else .ok { g with arr := g.arr.set i.toNat v }) ∧
    (GS.view { g with arr := g.arr.set i.toNat v } = g.view.set i.toNat v ∧
     GS.WF { g with arr := g.arr.set i.toNat v }) := by
  have hv : g.view.length = g.len := GS.view_length g h
  refine ⟨by unfold set; rw [hv], ?_, ?_⟩
  · unfold GS.view; simp only; rw [List.take_set]
  · unfold GS.WF at *; simp; exact h

/-- `Slice(start, end)` is the sub-sequence, or a range error -/
theorem slice_refines (g : GS) (a b : Int) (h : g.WF) :
    slice g a b = if a < 0 ∨ b > g.view.length ∨ a > b then (Except.error SErr.range : Except SErr (List Int))
                  else .ok ((g.view.drop a.toNat).take (b.toNat - a.toNat)) := by
  have hv : g.view.length = g.len := GS.view_length g h
  unfold slice
  rw [hv]
  split
  · rfl
  · rename_i hn
    unfold GS.view
    rw [List.drop_take, List.take_take]
    congr 2
    omega

/-- `Splice`: an invalid start or a negative count is an error, never a panic -/
theorem splice_errors (g : GS) (start del : Int) (ins : List Int) (h : g.WF) :
    ((start < 0 ∨ start > g.view.length) → splice g start del ins = .error .index) ∧
    (¬ (start < 0 ∨ start > g.view.length) → del < 0 → splice g start del ins = .error .range) := by
  have hv : g.view.length = g.len := GS.view_length g h
  unfold splice
  rw [hv]
  constructor
  · intro hb; simp [hb]
  · intro hs hd; simp [hs, hd]

/-- otherwise the removed elements are returned and the sequence becomes
    `before ++ insert ++ after`, even though the inserted elements overwrite the
    array in place before the tail is appended (the tail is copied first) -/
theorem splice_refines (g : GS) (start del : Int) (ins : List Int) (h : g.WF)
    (hs : ¬ (start < 0 ∨ start > g.view.length)) (hd : ¬ del < 0) :
    ∃ g', splice g start del ins = .ok ((g.view.drop start.toNat).take del.toNat, g') ∧
      g'.view = g.view.take start.toNat ++ ins ++ g.view.drop (start.toNat + del.toNat) ∧ g'.WF := by
  have hv : g.view.length = g.len := GS.view_length g h
  have hWF : g.len ≤ g.arr.length := h
  rw [hv] at hs
  have hst : start.toNat ≤ g.len := by omega
  have hup : (g.upto start.toNat).WF := by unfold GS.upto GS.WF; simp; omega
  obtain ⟨a1, a2, a3⟩ := GS.append_spec (g.upto start.toNat) ins hup
  obtain ⟨b1, b2, b3⟩ := GS.append_spec ((g.upto start.toNat).append ins)
    ((g.arr.take g.len).drop (start.toNat + min del.toNat (g.len - start.toNat))) a2
  refine ⟨_, ?_, ?_, b2⟩
  · unfold splice
    simp only [hs, hd, if_false]
    congr 2
    unfold GS.view
    rw [List.drop_take, List.take_take]
    try (congr 1; omega)
  · rw [b1, a1]
    have hupv : (g.upto start.toNat).view = g.view.take start.toNat := by
      unfold GS.upto GS.view; simp only; rw [List.take_take]; congr 1; omega
    rw [hupv]
    congr 1
    unfold GS.view
    by_cases hle : del.toNat ≤ g.len - start.toNat
    · rw [Nat.min_eq_left hle]
    · rw [Nat.min_eq_right (by omega)]
      rw [List.drop_of_length_le (by simp; omega), List.drop_of_length_le (by simp; omega)]

end EIO.Cont

namespace EIO.Cont
open EIO

/-- spec of `Remove`: drop the first element satisfying the condition -/
def eraseFirst (p : Int → Bool) : List Int → List Int
  | [] => []
  | x :: rest => if p x then rest else x :: eraseFirst p rest

theorem findIdx_spec (p : Int → Bool) : ∀ (l : List Int) (i : Nat),
    (∀ k, findIdx p l i = some k → i ≤ k ∧ k - i < l.length ∧
       eraseFirst p l = l.take (k - i) ++ l.drop (k - i + 1)) ∧
    (findIdx p l i = none → eraseFirst p l = l) := by
  intro l
  induction l with
  | nil => intro i; simp [findIdx, eraseFirst]
  | cons x rest ih =>
    intro i
    unfold findIdx eraseFirst
    by_cases hp : p x = true
    · simp [hp]
    · simp only [hp, Bool.false_eq_true, if_false]
      obtain ⟨h1, h2⟩ := ih (i + 1)
      constructor
      · intro k hk
        obtain ⟨a, b, c⟩ := h1 k hk
        refine ⟨by omega, by simp; omega, ?_⟩
        have : k - i = (k - (i + 1)) + 1 := by omega
        rw [this, c]
        simp
      · intro hn; rw [h2 hn]

/-- `Remove` deletes exactly the first matching element (the overlapping
    in-place append behaves as the sequence operation) -/
theorem remove_refines (g : GS) (p : Int → Bool) (h : g.WF) :
    (remove g p).view = eraseFirst p g.view ∧ (remove g p).WF := by
  have hv := GS.view_length g h
  have hWF : g.len ≤ g.arr.length := h
  unfold remove
  obtain ⟨h1, h2⟩ := findIdx_spec p g.view 0
  cases hf : findIdx p g.view 0 with
  | none => simp only; exact ⟨(h2 hf).symm, h⟩
  | some i =>
    simp only
    obtain ⟨_, hlt, he⟩ := h1 i hf
    simp only [Nat.sub_zero] at hlt he
    have hup : (g.upto i).WF := by unfold GS.upto GS.WF; simp; omega
    obtain ⟨a1, a2, _⟩ := GS.append_spec (g.upto i) (g.view.drop (i + 1)) hup
    refine ⟨?_, a2⟩
    rw [a1, he]
    congr 1
    unfold GS.upto GS.view; simp only; rw [List.take_take]; congr 1; omega

theorem take_succ_set (arr : List Int) (x : Int) : ∀ (n : Nat), n < arr.length →
    (arr.set n x).take (n + 1) = arr.take n ++ [x] := by
  induction arr with
  | nil => intro n h; simp at h
  | cons a rest ih =>
    intro n h
    cases n with
    | zero => simp
    | succ n => simp at h; simp [ih n h]

/-- loop invariant of `RemoveAll`'s in-place compaction -/
theorem removeAllLoop_spec (p : Int → Bool) (orig : List Int) (len : Nat) (hlen : len ≤ orig.length)
    (fuel : Nat) : ∀ (i n : Nat) (arr : List Int), len - i < fuel → i ≤ len → n ≤ i →
      arr.length = orig.length → arr.take n = (orig.take i).filter (fun x => !p x) →
      arr.drop i = orig.drop i →
      ((removeAllLoop p fuel i n arr len).1.take (removeAllLoop p fuel i n arr len).2 =
          (orig.take len).filter (fun x => !p x)) ∧
      (removeAllLoop p fuel i n arr len).2 ≤ (removeAllLoop p fuel i n arr len).1.length := by
  induction fuel with
  | zero => intro i n arr h; omega
  | succ fuel ih =>
    intro i n arr hf hi hn hal htk hdr
    unfold removeAllLoop
    by_cases hge : i ≥ len
    · have : i = len := by omega
      subst this
      simp only [hge, if_true]
      exact ⟨htk, by omega⟩
    · simp only [hge, if_false]
      have hil : i < orig.length := by omega
      have hel : arr.getD i 0 = orig[i] := by
        have h1 : (arr.drop i)[0]? = (orig.drop i)[0]? := by rw [hdr]
        simp only [List.getElem?_drop, Nat.add_zero] at h1
        rw [List.getD_eq_getElem?_getD, h1, List.getElem?_eq_getElem hil]; rfl
      have htake_succ : orig.take (i + 1) = orig.take i ++ [orig[i]] := by
        rw [List.take_succ, List.getElem?_eq_getElem hil]; rfl
      by_cases hp : p (arr.getD i 0) = true
      · simp only [hp, not_true_eq_false, if_false]
        apply ih (i + 1) n arr (by omega) (by omega) (by omega) hal
        · rw [htake_succ, List.filter_append, ← htk]
          rw [hel] at hp
          simp [hp]
        · rw [← List.drop_drop, hdr, List.drop_drop]
      · simp only [hp, Bool.false_eq_true, not_false_eq_true, if_true]
        apply ih (i + 1) (n + 1) (arr.set n (arr.getD i 0)) (by omega) (by omega) (by omega)
          (by simp [hal])
        · rw [htake_succ, List.filter_append, ← htk]
          rw [hel] at hp ⊢
          have hnl : n < arr.length := by omega
          simp only [hp, Bool.not_false, List.filter_cons_of_pos, List.filter_nil]
          exact take_succ_set arr _ n hnl
        · have : (arr.set n (arr.getD i 0)).drop (i + 1) = arr.drop (i + 1) := by
            rw [List.drop_set_of_lt (by omega)]
          rw [this, ← List.drop_drop, hdr, List.drop_drop]

/-- `RemoveAll` keeps exactly the elements that do not satisfy the condition, in order -/
theorem removeAll_refines (g : GS) (p : Int → Bool) (h : g.WF) :
    (removeAll g p).view = g.view.filter (fun x => !p x) ∧ (removeAll g p).WF := by
  have hWF : g.len ≤ g.arr.length := h
  have := removeAllLoop_spec p g.arr g.len hWF (g.len + 1) 0 0 g.arr (by omega) (by omega) (by omega)
    rfl (by simp) rfl
  unfold removeAll GS.view GS.WF
  generalize removeAllLoop p (g.len + 1) 0 0 g.arr g.len = r at this
  obtain ⟨arr, n⟩ := r
  exact ⟨this.1, this.2⟩

theorem clear_refines (g : GS) (h : g.WF) :
    (clear g).view = [] ∧ (allAndClear g).1 = g.view ∧ (allAndClear g).2.view = [] ∧ (clear g).WF := by
  unfold clear allAndClear GS.upto GS.view GS.WF
  simp

/-! ### storage is never shared with the caller -/

theorem Hdr.append_owner (a : Hdr) (n : Nat) :
    ((a.append n).1.owner = a.owner ∨ (a.append n).1.owner = .fresh) ∧
    (∀ o, (a.append n).2 = some o → o = a.owner ∨ o = .fresh) := by
  unfold Hdr.append
  split
  · simp
  · split <;> simp

/-- **no shared storage**: for `Push`, `Unshift` and `Splice`/`RangeAndSplice`
    called with a caller-owned slice of any length and any spare capacity, on a
    Slice whose array is its own, with any capacity: afterwards the Slice's
    array is its own or a fresh one, and no write went to the caller's array -/
theorem c20_no_shared_storage (s caller : Hdr) (hs : s.owner ≠ .caller) (start d : Nat) :
    (pushOwn s caller).1.owner ≠ .caller ∧ .caller ∉ (pushOwn s caller).2 ∧
    (unshiftOwn s caller).1.owner ≠ .caller ∧ .caller ∉ (unshiftOwn s caller).2 ∧
    (spliceOwn s start d caller).1.owner ≠ .caller ∧ .caller ∉ (spliceOwn s start d caller).2 := by
  have key : ∀ (a : Hdr) (n : Nat), a.owner ≠ .caller →
      (a.append n).1.owner ≠ .caller ∧ ∀ o, (a.append n).2 = some o → o ≠ .caller := by
    intro a n ha
    obtain ⟨h1, h2⟩ := Hdr.append_owner a n
    constructor
    · rcases h1 with h | h <;> rw [h] <;> first | exact ha | decide
    · intro o ho
      rcases h2 o ho with h | h <;> rw [h] <;> first | exact ha | decide
  have opt : ∀ (w : Option Owner), (∀ o, w = some o → o ≠ .caller) → Owner.caller ∉ w.toList := by
    intro w hw hm
    cases w with
    | none => simp at hm
    | some o => simp at hm; exact hw o rfl hm.symm
  refine ⟨?_, ?_, ?_, ?_, ?_, ?_⟩
  · exact (key s caller.len hs).1
  · exact opt _ (key s caller.len hs).2
  · unfold unshiftOwn
    have k1 := key ⟨.fresh, 0, caller.len + s.len⟩ caller.len (by simp)
    exact (key _ s.len k1.1).1
  · unfold unshiftOwn
    have k1 := key ⟨.fresh, 0, caller.len + s.len⟩ caller.len (by simp)
    have k2 := key _ s.len k1.1
    simp only [List.mem_append, not_or]
    exact ⟨opt _ k1.2, opt _ k2.2⟩
  · unfold spliceOwn
    have k1 := key ({ s with len := start } : Hdr) caller.len hs
    exact (key _ _ k1.1).1
  · unfold spliceOwn
    have k1 := key ({ s with len := start } : Hdr) caller.len hs
    have k2 := key _ (s.len - (start + d)) k1.1
    simp only [List.mem_append, not_or]
    exact ⟨opt _ k1.2, opt _ k2.2⟩

/-- non-vacuity: splice on a slice with spare capacity, inserting more than it
    deletes (the in-place overwrite the tail copy protects against) -/
example : (splice ⟨[1, 2, 3, 4, 0, 0, 0], 4⟩ 1 1 [7, 8, 9]).toOption.map (fun r => (r.1, r.2.view)) =
    some ([2], [1, 7, 8, 9, 3, 4]) := by decide +kernel

end EIO.Cont
