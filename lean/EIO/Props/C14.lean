import EIO.Lemmas.WTWriter
import EIO.Lemmas.WTReader
/-
C14 — WebTransport wire format is exactly Engine.IO framing, one frame per
message. Encoder half: every write path of the model of conn.go/prepared.go
emits, for one message, exactly `Spec.encode` of it — for every payload, every
buffer size (including 0 = default), pool on/off, every earlier content of the
(reused, pooled, grown) buffer, every chunking of the writer input, and every
sequence of messages. Decoder half: see `c14_decoder_accepts` below.
-/
namespace EIO.WT
open EIO

/-- the write APIs of `webtransport.Conn` -/
inductive WriteOp where
  | message (m : Msg)                              -- WriteMessage
  | stream (k : Kind) (chunks : List Bytes)        -- NextWriter; Write*; Close
  | readFrom (k : Kind) (chunks : List Bytes)      -- NextWriter; ReadFrom; Close
  | prepared (m : Msg)                             -- WritePreparedMessage

def WriteOp.msg : WriteOp → Msg
  | .message m => m
  | .stream k chunks => ⟨k, chunks.flatten⟩
  | .readFrom k chunks => ⟨k, chunks.flatten⟩
  | .prepared m => m

def applyOp (defBuf : Nat) (c : WConn) : WriteOp → WConn
  | .message m => writeMessage c m
  | .stream k chunks => writeStream c k chunks
  | .readFrom k chunks => writeReadFrom c k chunks
  | .prepared m => writePrepared c defBuf m

theorem c14_encoder_stream (c : WConn) (h : c.WF) (k : Kind) (chunks : List Bytes) :
    (writeStream c k chunks).out = c.out ++ Spec.encode ⟨k, chunks.flatten⟩ ∧
    (writeStream c k chunks).WF ∧ (writeStream c k chunks).isServer = c.isServer := by
  obtain ⟨hi, hk, ho, hwf, hs⟩ := beginMessage_spec c k h
  obtain ⟨hi2, hc2, hk2⟩ := MW.writeAll_spec chunks hi
  unfold writeStream
  have hf := MW.flushFinal_out hi2 []
  refine ⟨?_, MW.flushFinal_wf hi2 [] (hc2 ▸ hwf), ?_⟩
  · rw [hf.1, hc2, ho, hk2, hk]; simp [Spec.encode]
  · rw [hf.2, hc2, hs]

theorem c14_encoder_readFrom (c : WConn) (h : c.WF) (k : Kind) (chunks : List Bytes) :
    (writeReadFrom c k chunks).out = c.out ++ Spec.encode ⟨k, chunks.flatten⟩ ∧
    (writeReadFrom c k chunks).WF ∧ (writeReadFrom c k chunks).isServer = c.isServer := by
  obtain ⟨hi, hk, ho, hwf, hs⟩ := beginMessage_spec c k h
  obtain ⟨hi2, hc2, hk2⟩ := MW.readFrom_spec hi chunks
  unfold writeReadFrom
  have hf := MW.flushFinal_out hi2 []
  refine ⟨?_, MW.flushFinal_wf hi2 [] (hc2 ▸ hwf), ?_⟩
  · rw [hf.1, hc2, ho, hk2, hk]; simp [Spec.encode]
  · rw [hf.2, hc2, hs]

theorem c14_encoder_message (c : WConn) (h : c.WF) (m : Msg) :
    (writeMessage c m).out = c.out ++ Spec.encode m ∧
    (writeMessage c m).WF ∧ (writeMessage c m).isServer = c.isServer := by
  unfold writeMessage
  by_cases hsrv : c.isServer
  · simp only [hsrv, if_true]
    obtain ⟨hi, hk, ho, hwf, hs⟩ := beginMessage_spec c m.kind h
    -- the server fast path: copy what fits, pass the rest as `extra`
    have hfit : (beginMessage c m.kind).p + (m.data.take (min ((beginMessage c m.kind).buf.body.length) m.data.length)).length
        ≤ (beginMessage c m.kind).buf.body.length := by
      have := hi.len; simp at this; simp [← this]; omega
    have hi2 := MW.Inv.append_fits hi _ hfit
    have hp0 : (beginMessage c m.kind).p = 0 := by have := hi.len; simpa using this.symm
    have hcopy : (copyInto (beginMessage c m.kind).buf.body 0 m.data) =
        ((copyInto (beginMessage c m.kind).buf.body 0
            (m.data.take (min ((beginMessage c m.kind).buf.body.length) m.data.length))).1,
         min ((beginMessage c m.kind).buf.body.length) m.data.length) := by
      unfold copyInto; simp [List.take_take]
    rw [hcopy]
    simp only [hp0, Nat.zero_add, List.nil_append] at hi2
    have hlen : (m.data.take (min ((beginMessage c m.kind).buf.body.length) m.data.length)).length =
        min ((beginMessage c m.kind).buf.body.length) m.data.length := by simp
    rw [hlen] at hi2
    have hf := MW.flushFinal_out hi2
      (m.data.drop (min ((beginMessage c m.kind).buf.body.length) m.data.length))
    refine ⟨?_, MW.flushFinal_wf hi2 _ hwf, ?_⟩
    · rw [hf.1]
      simp only [ho, hk, Spec.encode]
      have : (List.take (min (beginMessage c m.kind).buf.body.length m.data.length) m.data).length +
          (List.drop (min (beginMessage c m.kind).buf.body.length m.data.length) m.data).length =
          m.data.length := by simp; omega
      rw [this, List.append_assoc (Spec.header m.kind m.data.length), List.take_append_drop]
    · rw [hf.2]; exact hs.trans hsrv
  · simp only [hsrv]
    have := c14_encoder_stream c h m.kind [m.data]
    cases m
    simpa [hsrv] using this

theorem c14_encoder_prepared (c : WConn) (h : c.WF) (defBuf : Nat) (m : Msg) :
    (writePrepared c defBuf m).out = c.out ++ Spec.encode m ∧
    (writePrepared c defBuf m).WF ∧ (writePrepared c defBuf m).isServer = c.isServer := by
  unfold writePrepared preparedFrame
  have hwf : (WConn.scratch c.isServer defBuf).WF := by
    constructor
    · intro b hb; simp [WConn.scratch] at hb; subst hb; exact WBuf.fresh_hdr _
    · intro l hl; simp [WConn.scratch] at hl
  have := c14_encoder_message _ hwf m
  refine ⟨?_, ⟨h.buf, h.pool⟩, rfl⟩
  show c.out ++ (writeMessage (WConn.scratch c.isServer defBuf) m).out = c.out ++ Spec.encode m
  rw [this.1]; simp [WConn.scratch]

/-- **C14 (encoder), full strength.** Any sequence of writes through any mix of
    the four write APIs, on a connection created with any buffer size and with
    or without a pool, puts on the wire exactly the concatenation of one spec
    frame per message, in order. -/
theorem c14_encoder_conforms (defBuf : Nat) (ops : List WriteOp) (c : WConn) (h : c.WF) :
    (ops.foldl (applyOp defBuf) c).out = c.out ++ (ops.map fun o => Spec.encode o.msg).flatten := by
  induction ops generalizing c with
  | nil => simp
  | cons o rest ih =>
    have step : (applyOp defBuf c o).out = c.out ++ Spec.encode o.msg ∧ (applyOp defBuf c o).WF := by
      cases o with
      | message m => exact ⟨(c14_encoder_message c h m).1, (c14_encoder_message c h m).2.1⟩
      | stream k ch => exact ⟨(c14_encoder_stream c h k ch).1, (c14_encoder_stream c h k ch).2.1⟩
      | readFrom k ch => exact ⟨(c14_encoder_readFrom c h k ch).1, (c14_encoder_readFrom c h k ch).2.1⟩
      | prepared m => exact ⟨(c14_encoder_prepared c h defBuf m).1, (c14_encoder_prepared c h defBuf m).2.1⟩
    simp only [List.foldl_cons, List.map_cons, List.flatten_cons]
    rw [ih _ step.2, step.1, List.append_assoc]

/-- every connection `NewConn` can build satisfies the hypothesis -/
theorem c14_new_conn_wf (srv : Bool) (n : Nat) (pooled : Bool) (d : Nat) :
    (WConn.new srv n pooled d).WF := WConn.new_wf srv n pooled d

/-- non-vacuity: a pooled one-byte-buffer server connection writing a text
    message of 3 bytes through the streaming writer in three chunks, then a
    prepared binary message -/
example : (([WriteOp.stream .text [[1], [2], [3]], .prepared ⟨.binary, [9]⟩]).foldl (applyOp 4096)
    (WConn.new true 1 true 4096)).out = [3, 1, 2, 3, 129, 9] := by decide +kernel

end EIO.WT

namespace EIO.WT
open EIO

/-- **C14 (decoder), full strength.** Every stream of well-formed frames — each
    in whatever length form its sender chose, minimal or not, zero-length
    payloads included — is read back as exactly the encoded messages, in order;
    the clean end of the stream is then reported as an unexpected end (this is
    how the transport learns that the peer is gone). No read limit. -/
theorem c14_decoder_accepts (fms : List (Spec.LenForm × Msg))
    (hfit : ∀ fm ∈ fms, fm.1.fits fm.2.data.length) :
    (readStream (Spec.encodeAll fms)).1 = fms.map (·.2) ∧
    (readStream (Spec.encodeAll fms)).2.1 = some .unexpectedEOF := by
  unfold readStream
  have := RConn.readMessages_ok fms ((Spec.encodeAll fms).length + 1)
    { input := Spec.encodeAll fms, tail := .eof, limit := 0 } []
    (by have := encodeAll_length_ge fms; omega) rfl rfl (by show 0 + 1 < errGuard; decide) rfl
    (fun fm h => ⟨hfit fm h, Or.inl rfl⟩)
  simpa [StreamEnd.peekErr] using this

/-- the same under a positive read limit that no message exceeds -/
theorem c14_decoder_accepts_within_limit (fms : List (Spec.LenForm × Msg)) (limit : Nat)
    (hfit : ∀ fm ∈ fms, fm.1.fits fm.2.data.length ∧ fm.2.data.length ≤ limit) :
    (readStream (Spec.encodeAll fms) .eof limit).1 = fms.map (·.2) := by
  unfold readStream
  have := RConn.readMessages_ok fms ((Spec.encodeAll fms).length + 1)
    { input := Spec.encodeAll fms, tail := .eof, limit := limit } []
    (by have := encodeAll_length_ge fms; omega) rfl rfl (by show 0 + 1 < errGuard; decide) rfl
    (fun fm h => ⟨(hfit fm h).1, Or.inr (hfit fm h).2⟩)
  simpa using this.1

/-- non-vacuity: a non-minimal 16-bit form carrying 1 byte, an empty text
    frame in the 64-bit form, and a minimal binary frame -/
example : (readStream (Spec.encodeAll
    [(.ext16, ⟨.text, [7]⟩), (.ext64, ⟨.text, []⟩), (.short, ⟨.binary, [1, 2]⟩)])).1 =
    [⟨.text, [7]⟩, ⟨.text, []⟩, ⟨.binary, [1, 2]⟩] := by decide +kernel

end EIO.WT
