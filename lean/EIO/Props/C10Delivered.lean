import EIO.Lemmas.MsgStep
import EIO.Props.C10Body
/-
C10, "no message larger than the limit is ever delivered":

  * revision 4 (every model state): whatever a polling body or a frame makes the server log, every message entry
    carries at most as many bytes as the body / frame had (`c10_v4_body_messages_within_body`,
    `c10_v4_frame_message_within_frame`); since a body or frame above the limit is refused before it is decoded
    (`c10_oversized_body_refused`, `c10_oversized_frame_not_delivered`), no revision-4 message above the limit is
    delivered (`c10_v4_post_messages_within_limit`).
  * revision 3: FALSE of the model, and of the code: the text payload decoder replaces every malformed byte by U+FFFD
    (three bytes), so a body within the limit can deliver a message three times its size. `c10_v3_inflation` is the
    kernel-checked counterexample (94-byte body, limit 100, 270-byte message); the same bytes are replayed on the real
    server by the hostile family (known finding C10/delivered/limit/post/v3-invalid-utf8).
-/
namespace EIO.Ses
open EIO EIO.Codec

/-- revision 4, polling: every message a body produces is at most as long as the body -/
theorem c10_v4_body_messages_within_body (w : World) (ti : Nat) (body : Bytes) (binary : Bool)
    (h4 : (w.tr ti).proto = 4) : MB body.length w (pollOnData w ti body binary).1 := by
  unfold pollOnData pollDecode
  simp only [h4, if_true]
  exact mb_pollDeliver ti _ (decodePayloadV4_ok body) w

/-- revision 4, frame transports: the message a frame produces is at most as long as the frame -/
theorem c10_v4_frame_message_within_frame (w : World) (c : Nat) (m : Msg)
    (h4 : ∀ ti, trOfConn w c = some ti → (w.tr ti).proto ≠ 3) : MB m.data.length w (wsFrame w c m).1 := by
  unfold wsFrame
  try dsimp only
  split
  · exact MB.refl _ _
  · split
    · exact MB.refl _ _
    · rename_i ti hti
      split
      · exact (nm_trOnError _ (nm_setConn _ _ (NM.refl w))).mb _
      · dsimp only
        have h := h4 ti hti
        simp only [h, if_false]
        exact mb_trEmitPacket w ti _ (decodePacketV4_ok m)

/-- revision 4, plain polling: whatever a data request makes the server log, no message entry exceeds the limit -/
theorem c10_v4_post_messages_within_limit (w : World) (sid : Nat) (binary declared : Bool) (body : Bytes)
    (h4 : (w.tr (w.sock sid).tr).proto = 4) :
    MB w.o.maxPayload w (postReq w sid binary declared body false) := by
  unfold postReq lookup
  simp only [Bool.false_eq_true, if_false]
  have c0 : NM w ({ w with reqs := w.reqs.push { isPost := true, consumed := some 0 } } : World) := nm_pushReq _ (NM.refl w)
  split
  · exact (nm_rejectReq _ _ _ c0).mb _
  · rename_i s hl
    have hs : s = w.sock sid := by
      split at hl
      · cases hl; rfl
      · cases hl
    subst hs
    split
    · exact (nm_rejectReq _ _ _ c0).mb _
    · split
      · exact (nm_answer _ _ (nm_trOnError _ c0)).mb _
      · split
        · exact (nm_answer _ _ c0).mb _
        · split
          · exact (nm_answer _ _ (nm_setReq _ _ c0)).mb _
          · rename_i hle
            have hlen : body.length ≤ w.o.maxPayload := by
              have : ¬ (min body.length (w.o.maxPayload + 1) > w.o.maxPayload) := hle
              omega
            have c1 : NM w ((({ w with reqs := w.reqs.push { isPost := true, consumed := some 0 } } : World).setReq w.reqs.size
                fun q => { q with consumed := some (min body.length (w.o.maxPayload + 1)) }).setTr (w.sock sid).tr fun t => { t with dataReq := some w.reqs.size }) :=
              nm_setTr _ _ (nm_setReq _ _ c0)
            have hp4 : (((({ w with reqs := w.reqs.push { isPost := true, consumed := some 0 } } : World).setReq w.reqs.size
                fun q => { q with consumed := some (min body.length (w.o.maxPayload + 1)) }).setTr (w.sock sid).tr fun t => { t with dataReq := some w.reqs.size }).tr (w.sock sid).tr).proto = 4 := by
              rw [tr_setTr]; split <;> exact h4
            have m1 := (c10_v4_body_messages_within_body _ (w.sock sid).tr body binary hp4).mono hlen
            generalize ((({ w with reqs := w.reqs.push { isPost := true, consumed := some 0 } } : World).setReq w.reqs.size
                fun q => { q with consumed := some (min body.length (w.o.maxPayload + 1)) }).setTr (w.sock sid).tr fun t => { t with dataReq := some w.reqs.size }) = w1 at c1 m1 ⊢
            have m2 : MB w.o.maxPayload w (pollOnData w1 (w.sock sid).tr body binary).1 := (c1.mb _).trans m1
            generalize (pollOnData w1 (w.sock sid).tr body binary) = res at m2 ⊢
            split
            · exact m2.trans ((nm_trOnError _ (nm_setReq _ _ (nm_setTr _ _ (NM.refl res.1)))).mb _)
            · exact m2.trans ((nm_answer _ _ (nm_emitHeaders _ _ (nm_setTr _ _ (NM.refl res.1)))).mb _)

/-- revision 3: the limit bounds the body, not the message. A 94-byte text payload of malformed bytes, limit 100:
    the application receives 270 bytes. -/
theorem c10_v3_inflation :
    let w := run { eio3 := true, maxPayload := 100 } [.hsPolling 3 false none, .settle]
    let body : Bytes := "91:4".toUTF8.toList ++ List.replicate 90 255
    body.length = 94 ∧
    ((postReq w 0 false true body).slog.filterMap fun e => match e.2 with | .message (some m) => some m.data.length | _ => none) = [270] := by
  decide +kernel

end EIO.Ses
