import EIO.Model.Containers
import EIO.Model.Ids
import EIO.Model.SyncMap
import Driver.Util
namespace Driver
open EIO EIO.Cont EIO.Ids

structure UtlState where
  gs : GS := ⟨[], 0⟩
  set : List Int := []
  mp : EIO.SMap.St := {}
  em : Em := {}
  reacts : List (Nat × List String) := []
  ystate : YState := {}
  clock : Nat := 946684800000      -- synctest's epoch in ms

def parseCsvInt (s : String) : List Int :=
  if s = "-" then [] else (s.splitOn ",").map fun t => t.toInt!

def showCsvInt (xs : List Int) : String :=
  if xs.isEmpty then "-" else ",".intercalate (xs.map toString)

def serr : SErr → String
  | .empty => "err:empty" | .index => "err:index" | .range => "err:range"

def sliceStep (g : GS) (t : List String) : GS × String :=
  let st (g : GS) (res : String) : GS × String := (g, res ++ " ; " ++ showCsvInt g.view)
  match t with
  | ["new", xs] => st (newSlice (parseCsvInt xs)) "ok"
  | ["push", xs] => let (g', n) := push g (parseCsvInt xs); st g' (toString n)
  | ["unshift", xs] => let (g', n) := unshift g (parseCsvInt xs); st g' (toString n)
  | ["pop"] => match pop g with | .ok (v, g') => st g' (toString v) | .error e => st g (serr e)
  | ["shift"] => match shift g with | .ok (v, g') => st g' (toString v) | .error e => st g (serr e)
  | ["get", i] => match get g i.toInt! with | .ok v => st g (toString v) | .error e => st g (serr e)
  | ["set", i, v] => match set g i.toInt! v.toInt! with | .ok g' => st g' "ok" | .error e => st g (serr e)
  | ["slice", a, b] => match slice g a.toInt! b.toInt! with | .ok v => st g (showCsvInt v) | .error e => st g (serr e)
  | ["splice", a, d, xs] =>
    match splice g a.toInt! d.toInt! (parseCsvInt xs) with
    | .ok (r, g') => st g' (showCsvInt r) | .error e => st g (serr e)
  | ["rsplice", v, a, d, xs, _rev] =>
    match rangeAndSplice g (· == v.toInt!) a.toInt! d.toInt! (parseCsvInt xs) with
    | .ok (r, g') => st g' (showCsvInt r) | .error e => st g (serr e)
  | ["remove", v] => st (remove g (· == v.toInt!)) "ok"
  | ["removeall", v] => st (removeAll g (· ≥ v.toInt!)) "ok"
  | ["filter", v] => st g (showCsvInt (filter g (· ≥ v.toInt!)))
  | ["findindex", v] => st g (toString (findIndex g (· == v.toInt!)))
  | ["allandclear"] => let (r, g') := allAndClear g; st g' (showCsvInt r)
  | ["clear"] => st (clear g) "ok"
  | ["len"] => st g (toString g.len)
  | _ => (g, "bad-op")

def sortInts (l : List Int) : List Int := l.mergeSort (· ≤ ·)

def setStep (s : List Int) (t : List String) : List Int × String :=
  let st (s : List Int) (res : String) := (s, res ++ " ; " ++ showCsvInt (sortInts s) ++ s!" len={s.length}")
  let b (x : Bool) := if x then "1" else "0"
  match t with
  | ["new", xs] => st (setNew (parseCsvInt xs)) "ok"
  | ["add", xs] => let (s', r) := setAdd s (parseCsvInt xs); st s' (b r)
  | ["delete", xs] => let (s', r) := setDelete s (parseCsvInt xs); st s' (b r)
  | ["has", v] => st s (b (s.contains v.toInt!))
  | ["clear"] => st [] "1"
  | _ => (s, "bad-op")

/-- the concrete state of the Map as the verif-only `VerifDump` of types/map_verif.go shows it:
    the read map, `amended`, the dirty map (or `nil`), the miss counter; per key the entry's
    pointer state (`v<value>`, `n` = nil, `x` = expunged); `!` marks a dirty entry that is not
    the very entry the read map holds for that key -/
def mapDump (s : EIO.SMap.St) : String :=
  let slotStr (e : Nat) : String := match s.slot e with
    | .val v => s!"v{v}" | .nil => "n" | .expunged => "x"
  let sorted (l : EIO.SMap.AL) := l.mergeSort (fun a b => a.1 ≤ b.1)
  let showAL (l : EIO.SMap.AL) (mark : Int → Nat → String) : String :=
    if l.isEmpty then "-" else ",".intercalate ((sorted l).map fun (k, e) => s!"{k}={slotStr e}{mark k e}")
  let rd := showAL s.read (fun _ _ => "")
  let dd := match s.dirty with
    | none => "nil"
    | some d => showAL d (fun k e => match EIO.SMap.lk s.read k with
        | some e' => if e' = e then "" else "!" | none => "")
  s!"R:{rd} A:{if s.amended then 1 else 0} D:{dd} M:{s.misses}{if s.fault then " FAULT" else ""}"

/-- the Map runs the model of types/map.go (`EIO.SMap`), call for call — including the calls the
    harness itself makes to show the contents (`Len`, `Keys`, one `Load` per key) -/
def mapStep (m : EIO.SMap.St) (t : List String) (mode : Nat := 0) : EIO.SMap.St × String :=
  -- mode 0: contents listed (Len, Keys, Load each); 1 (quiet): Len only; 2 (raw): no call, the dump
  let st (m : EIO.SMap.St) (res : String) : EIO.SMap.St × String :=
    if mode = 2 then (m, res ++ " ; " ++ mapDump m) else
    let (m, pairs) := m.range
    let n := pairs.length
    if mode = 1 then (m, res ++ s!" ; len={n}") else
    let (m, pairs) := m.range
    let keys := (pairs.map (·.1)).mergeSort (· ≤ ·)
    let (m, kv) := keys.foldl (fun (acc : EIO.SMap.St × List String) k =>
      let (m', v) := acc.1.load k
      (m', acc.2 ++ [s!"{k}={match v with | some x => toString x | none => "none"}"])) (m, [])
    (m, res ++ " ; " ++ (if kv.isEmpty then "-" else ",".intercalate kv) ++ s!" len={n}")
  let vb (o : Option Int) := match o with | some v => toString v | none => "none"
  let b (x : Bool) := if x then "1" else "0"
  match t with
  | ["new"] => st {} "ok"
  | ["store", k, v] => st (m.swap k.toInt! v.toInt!).1 "ok"
  | ["load", k] => let (m', r) := m.load k.toInt!; st m' (vb r)
  | ["loadorstore", k, v] => let (m', r) := m.loadOrStore k.toInt! v.toInt!; st m' s!"{r.1},{b r.2}"
  | ["loadanddelete", k] => let (m', r) := m.loadAndDelete k.toInt!; st m' (vb r)
  | ["delete", k] => st (m.loadAndDelete k.toInt!).1 "ok"
  | ["swap", k, v] => let (m', r) := m.swap k.toInt! v.toInt!; st m' (vb r)
  | ["cas", k, o, n] => let (m', r) := m.cas k.toInt! o.toInt! n.toInt!; st m' (b r)
  | ["cad", k, o] => let (m', r) := m.cad k.toInt! o.toInt!; st m' (b r)
  | ["clear"] => st m.clear "ok"
  | ["range", n] => let (m', pairs) := m.range; st m' s!"visited={min n.toNat! pairs.length}"
  | ["len"] => let (m', pairs) := m.range; st m' s!"{pairs.length}"
  | _ => (m, "bad-op")

def parseFns (s : String) : List (Option Nat) :=
  (s.splitOn ",").map fun t => if t = "n" then none else some t.toNat!

/-- apply a listener's own reaction ops (on / once / remove) to the emitter -/
def applyReact (reacts : List (Nat × List String)) (fn : Nat) (e : Em) : Em :=
  (reacts.filter (·.1 == fn)).foldl (fun e r =>
    match r.2 with
    | ["on", _, ids] => e.add (parseFns ids) false
    | ["once", _, ids] => e.add (parseFns ids) true
    | ["remove", _, id] => (e.remove id.toNat!).1
    | _ => e) e

def emStep (s : UtlState) (t : List String) : UtlState × String :=
  let b (x : Bool) := if x then "1" else "0"
  match t with
  | ["new"] => ({ s with em := {}, reacts := [] }, "ok")
  | ["on", _, ids] => let e := s.em.add (parseFns ids) false; ({ s with em := e }, s!"count={e.slots.length}")
  | ["once", _, ids] => let e := s.em.add (parseFns ids) true; ({ s with em := e }, s!"count={e.slots.length}")
  | ["react", id, op] =>
    let toks := (op.splitOn "_").drop 1
    ({ s with reacts := s.reacts ++ [(id.toNat!, toks)] }, "ok")
  | ["emit", _] =>
    let (e, calls) := s.em.emit (applyReact s.reacts)
    ({ s with em := e }, s!"calls={showInts (calls.map (·.fn))} count={e.slots.length}")
  | ["remove", _, id] =>
    if id = "n" then (s, s!"0 count={s.em.slots.length}") else
    let (e, r) := s.em.remove id.toNat!
    ({ s with em := e }, s!"{b r} count={e.slots.length}")
  | ["removeall", _] =>
    let had := !s.em.slots.isEmpty ∨ s.em.next > 0
    ({ s with em := { s.em with slots := [] } }, s!"{b had} count=0")
  | ["listeners", _] => (s, s!"n={s.em.slots.length}")
  | _ => (s, "bad-op")

def charsOfHex (h : String) : List Char := (unhex h).map fun b => Char.ofNat b.toNat
def hexOfChars (cs : List Char) : String := hexOf (cs.map fun c => UInt8.ofNat c.toNat)

def utlStep (s : UtlState) (toks : List String) : UtlState × String :=
  match toks with
  | "slice" :: t => let (g, o) := sliceStep s.gs t; ({ s with gs := g }, o)
  | "set" :: t => let (x, o) := setStep s.set t; ({ s with set := x }, o)
  | "map" :: t => let (x, o) := mapStep s.mp t; ({ s with mp := x }, o)
  | "mapq" :: t => let (x, o) := mapStep s.mp t 1; ({ s with mp := x }, o)
  | "mapr" :: t => let (x, o) := mapStep s.mp t 2; ({ s with mp := x }, o)
  | "em" :: t => emStep s t
  | ["b64id", r, seq] => (s, hexOfChars (generateId (unhex r) seq.toNat!))
  | ["yeast", "enc", n] => (s, hexOfChars (yEncode n.toNat!))
  | ["yeast", "dec", h] => (s, toString (yDecode (charsOfHex h)))
  | _ => (s, "bad-op")

def yeastStep (s : UtlState) (toks : List String) : UtlState × String :=
  match toks with
  | ["cfg"] => ({ s with ystate := {}, clock := 946684800000 }, "946684800000")
  | ["next"] =>
    let (st, o) := yeastNext s.ystate s.clock
    ({ s with ystate := st }, hexOfChars o.render)
  | ["sleep", ms] => ({ s with clock := s.clock + ms.toNat! }, "ok")
  | _ => (s, "bad-op")

end Driver
