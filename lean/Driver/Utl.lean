import EIO.Model.Containers
import EIO.Model.Ids
import Driver.Util
namespace Driver
open EIO EIO.Cont EIO.Ids

structure UtlState where
  gs : GS := ⟨[], 0⟩
  set : List Int := []
  mp : List (Int × Int) := []
  em : Em := {}
  reacts : List (Nat × List String) := []
  ystate : YState := {}
  clock : Nat := 946684800000      -- synctest's epoch in ms

def parseCsvInt (s : String) : List Int :=
  if s = "-" then [] else (s.splitOn ",").map fun t => t.toInt!

def showCsvInt (xs : List Int) : String :=
  if xs.isEmpty then "-" else ",".intercalate (xs.map toString)

def serr : SErr → String
  | .empty => "err:empty" | .index => "err:index" | .range => "err:range"

def sliceStep (g : GS) (t : List String) : GS × String :=
  let st (g : GS) (res : String) : GS × String := (g, res ++ " ; " ++ showCsvInt g.view)
  match t with
  | ["new", xs] => st (newSlice (parseCsvInt xs)) "ok"
  | ["push", xs] => let (g', n) := push g (parseCsvInt xs); st g' (toString n)
  | ["unshift", xs] => let (g', n) := unshift g (parseCsvInt xs); st g' (toString n)
  | ["pop"] => match pop g with | .ok (v, g') => st g' (toString v) | .error e => st g (serr e)
  | ["shift"] => match shift g with | .ok (v, g') => st g' (toString v) | .error e => st g (serr e)
  | ["get", i] => match get g i.toInt! with | .ok v => st g (toString v) | .error e => st g (serr e)
  | ["set", i, v] => match set g i.toInt! v.toInt! with | .ok g' => st g' "ok" | .error e => st g (serr e)
  | ["slice", a, b] => match slice g a.toInt! b.toInt! with | .ok v => st g (showCsvInt v) | .error e => st g (serr e)
  | ["splice", a, d, xs] =>
    match splice g a.toInt! d.toInt! (parseCsvInt xs) with
    | .ok (r, g') => st g' (showCsvInt r) | .error e => st g (serr e)
  | ["rsplice", v, a, d, xs, _rev] =>
    match rangeAndSplice g (· == v.toInt!) a.toInt! d.toInt! (parseCsvInt xs) with
    | .ok (r, g') => st g' (showCsvInt r) | .error e => st g (serr e)
  | ["remove", v] => st (remove g (· == v.toInt!)) "ok"
  | ["removeall", v] => st (removeAll g (· ≥ v.toInt!)) "ok"
  | ["filter", v] => st g (showCsvInt (filter g (· ≥ v.toInt!)))
  | ["findindex", v] => st g (toString (findIndex g (· == v.toInt!)))
  | ["allandclear"] => let (r, g') := allAndClear g; st g' (showCsvInt r)
  | ["clear"] => st (clear g) "ok"
  | ["len"] => st g (toString g.len)
  | _ => (g, "bad-op")

def sortInts (l : List Int) : List Int := l.mergeSort (· ≤ ·)

def setStep (s : List Int) (t : List String) : List Int × String :=
  let st (s : List Int) (res : String) := (s, res ++ " ; " ++ showCsvInt (sortInts s) ++ s!" len={s.length}")
  let b (x : Bool) := if x then "1" else "0"
  match t with
  | ["new", xs] => st (setNew (parseCsvInt xs)) "ok"
  | ["add", xs] => let (s', r) := setAdd s (parseCsvInt xs); st s' (b r)
  | ["delete", xs] => let (s', r) := setDelete s (parseCsvInt xs); st s' (b r)
  | ["has", v] => st s (b (s.contains v.toInt!))
  | ["clear"] => st [] "1"
  | _ => (s, "bad-op")

/-- the Map is modelled only as the finite map it must behave like -/
def mapStep (m : List (Int × Int)) (t : List String) (quiet : Bool := false) : List (Int × Int) × String :=
  let sorted (m : List (Int × Int)) := m.mergeSort (fun a b => a.1 ≤ b.1)
  -- quiet: the harness does not list the contents (listing them walks the map, which reorganises it)
  let st (m : List (Int × Int)) (res : String) :=
    let kv := (sorted m).map fun (k, v) => s!"{k}={v}"
    if quiet then (m, res ++ s!" ; len={m.length}") else
    (m, res ++ " ; " ++ (if kv.isEmpty then "-" else ",".intercalate kv) ++ s!" len={m.length}")
  let lookup (k : Int) := (m.find? (·.1 == k)).map (·.2)
  let del (k : Int) := m.filter (·.1 != k)
  let put (k v : Int) := (del k) ++ [(k, v)]
  let vb (o : Option Int) := match o with | some v => toString v | none => "none"
  match t with
  | ["new"] => st [] "ok"
  | ["store", k, v] => st (put k.toInt! v.toInt!) "ok"
  | ["load", k] => st m (vb (lookup k.toInt!))
  | ["loadorstore", k, v] =>
    match lookup k.toInt! with
    | some old => st m s!"{old},1"
    | none => st (put k.toInt! v.toInt!) s!"{v.toInt!},0"
  | ["loadanddelete", k] => st (del k.toInt!) (vb (lookup k.toInt!))
  | ["delete", k] => st (del k.toInt!) "ok"
  | ["swap", k, v] => st (put k.toInt! v.toInt!) (vb (lookup k.toInt!))
  | ["cas", k, o, n] => if lookup k.toInt! = some o.toInt! then st (put k.toInt! n.toInt!) "1" else st m "0"
  | ["cad", k, o] => if lookup k.toInt! = some o.toInt! then st (del k.toInt!) "1" else st m "0"
  | ["clear"] => st [] "ok"
  | ["range", n] => st m s!"visited={min n.toNat! m.length}"
  | _ => (m, "bad-op")

def parseFns (s : String) : List (Option Nat) :=
  (s.splitOn ",").map fun t => if t = "n" then none else some t.toNat!

/-- apply a listener's own reaction ops (on / once / remove) to the emitter -/
def applyReact (reacts : List (Nat × List String)) (fn : Nat) (e : Em) : Em :=
  (reacts.filter (·.1 == fn)).foldl (fun e r =>
    match r.2 with
    | ["on", _, ids] => e.add (parseFns ids) false
    | ["once", _, ids] => e.add (parseFns ids) true
    | ["remove", _, id] => (e.remove id.toNat!).1
    | _ => e) e

def emStep (s : UtlState) (t : List String) : UtlState × String :=
  let b (x : Bool) := if x then "1" else "0"
  match t with
  | ["new"] => ({ s with em := {}, reacts := [] }, "ok")
  | ["on", _, ids] => let e := s.em.add (parseFns ids) false; ({ s with em := e }, s!"count={e.slots.length}")
  | ["once", _, ids] => let e := s.em.add (parseFns ids) true; ({ s with em := e }, s!"count={e.slots.length}")
  | ["react", id, op] =>
    let toks := (op.splitOn "_").drop 1
    ({ s with reacts := s.reacts ++ [(id.toNat!, toks)] }, "ok")
  | ["emit", _] =>
    let (e, calls) := s.em.emit (applyReact s.reacts)
    ({ s with em := e }, s!"calls={showInts (calls.map (·.fn))} count={e.slots.length}")
  | ["remove", _, id] =>
    if id = "n" then (s, s!"0 count={s.em.slots.length}") else
    let (e, r) := s.em.remove id.toNat!
    ({ s with em := e }, s!"{b r} count={e.slots.length}")
  | ["removeall", _] =>
    let had := !s.em.slots.isEmpty ∨ s.em.next > 0
    ({ s with em := { s.em with slots := [] } }, s!"{b had} count=0")
  | ["listeners", _] => (s, s!"n={s.em.slots.length}")
  | _ => (s, "bad-op")

def charsOfHex (h : String) : List Char := (unhex h).map fun b => Char.ofNat b.toNat
def hexOfChars (cs : List Char) : String := hexOf (cs.map fun c => UInt8.ofNat c.toNat)

def utlStep (s : UtlState) (toks : List String) : UtlState × String :=
  match toks with
  | "slice" :: t => let (g, o) := sliceStep s.gs t; ({ s with gs := g }, o)
  | "set" :: t => let (x, o) := setStep s.set t; ({ s with set := x }, o)
  | "map" :: t => let (x, o) := mapStep s.mp t; ({ s with mp := x }, o)
  | "mapq" :: t => let (x, o) := mapStep s.mp t true; ({ s with mp := x }, o)
  | "em" :: t => emStep s t
  | ["b64id", r, seq] => (s, hexOfChars (generateId (unhex r) seq.toNat!))
  | ["yeast", "enc", n] => (s, hexOfChars (yEncode n.toNat!))
  | ["yeast", "dec", h] => (s, toString (yDecode (charsOfHex h)))
  | _ => (s, "bad-op")

def yeastStep (s : UtlState) (toks : List String) : UtlState × String :=
  match toks with
  | ["cfg"] => ({ s with ystate := {}, clock := 946684800000 }, "946684800000")
  | ["next"] =>
    let (st, o) := yeastNext s.ystate s.clock
    ({ s with ystate := st }, hexOfChars o.render)
  | ["sleep", ms] => ({ s with clock := s.clock + ms.toNat! }, "ok")
  | _ => (s, "bad-op")

end Driver
