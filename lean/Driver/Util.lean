import EIO.Base.Bytes
/- helpers of the line-protocol driver (not part of the model) -/
namespace Driver
open EIO

def hexDigit (n : Nat) : Char :=
  if n < 10 then Char.ofNat (48 + n) else Char.ofNat (87 + n)

def hexOf (bs : Bytes) : String :=
  if bs.isEmpty then "-" else
  String.ofList (bs.foldr (fun b acc => hexDigit (b.toNat / 16) :: hexDigit (b.toNat % 16) :: acc) [])

def hexVal (c : Char) : Nat :=
  let n := c.toNat
  if 48 ≤ n ∧ n ≤ 57 then n - 48 else if 97 ≤ n ∧ n ≤ 102 then n - 87 else if 65 ≤ n ∧ n ≤ 70 then n - 55 else 0

def unhexAux : List Char → Array UInt8 → Array UInt8
  | a :: b :: rest, acc => unhexAux rest (acc.push (UInt8.ofNat (hexVal a * 16 + hexVal b)))
  | _, acc => acc

def unhex (s : String) : Bytes :=
  if s = "-" then [] else (unhexAux s.toList #[]).toList

def parseInts (s : String) : List Nat :=
  if s = "-" then [] else (s.splitOn ",").map (fun t => t.toNat!)

def showInts (xs : List Nat) : String :=
  if xs.isEmpty then "-" else ",".intercalate (xs.map toString)

def kindOf (s : String) : Kind := if s = "b" then .binary else .text
def kindStr : Kind → String | .text => "t" | .binary => "b"

/-- split `data` by the given sizes (remainder appended), like the harness -/
def splitBy : Bytes → List Nat → List Bytes
  | d, [] => if d.isEmpty then [] else [d]
  | d, k :: ks => d.take k :: splitBy (d.drop k) ks

end Driver
