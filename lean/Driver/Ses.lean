import EIO.Model.Session
import Driver.Util
namespace Driver
open EIO EIO.Codec EIO.Ses

/-- hex of a byte string with every session-id stand-in shown as {s<k>} -/
def hexMasked (bs : Bytes) : String :=
  if bs.isEmpty then "-" else
  let rec go (fuel : Nat) (l : Bytes) (acc : String) : String :=
    match fuel with
    | 0 => acc
    | fuel + 1 =>
      match l with
      | [] => acc
      | b :: rest =>
        if b = 126 ∧ (l.take 20).all (· = 126) ∧ (l.take 20).length = 20 ∧
            ((l.drop 20).take 4).length = 4 ∧ ((l.drop 20).take 4).all (fun d => 48 ≤ d ∧ d ≤ 57) then
          let k := ((l.drop 20).take 4).foldl (fun a d => a * 10 + (d.toNat - 48)) 0
          go fuel (l.drop 24) (acc ++ s!"\{s{k}}")
        else go fuel rest (acc.push (hexDigitC (b.toNat / 16)) |>.push (hexDigitC (b.toNat % 16)))
  go (bs.length + 1) bs ""

def msgOf (k hex : String) : Msg := ⟨if k = "b" then .binary else .text, unhex hex⟩

def sidOf (tok : String) : Nat := (tok.drop 1).toString.toNat!

/-- `url.QueryEscape` -/
def queryEscape (bs : Bytes) : Bytes :=
  bs.flatMap fun b =>
    let n := b.toNat
    if (48 ≤ n ∧ n ≤ 57) ∨ (65 ≤ n ∧ n ≤ 90) ∨ (97 ≤ n ∧ n ≤ 122) ∨ n = 45 ∨ n = 95 ∨ n = 46 ∨ n = 126 then [b]
    else if n = 32 then [43]
    else
      let hd (x : Nat) : UInt8 := if x < 10 then UInt8.ofNat (48 + x) else UInt8.ofNat (55 + x)
      [37, hd (n / 16), hd (n % 16)]

structure SesState where
  w : World := {}

/-- the observation line of a settled world (what `observe` then marks as seen) -/
def reportLine (w : World) : String :=
  let parts : List String := w.evs
  -- responses, in request order
  let parts := (List.range w.reqs.size).foldl (fun (parts : List String) i =>
    let q := w.reqs.getD i default
    let parts := if q.panicked ∧ !q.reported then parts ++ [s!"PANIC:{i}"] else parts
    match q.resp with
    | some r =>
      if q.reported then parts else
      let parts := parts ++ [s!"R:{i}:{r.status}:{r.ct}:{r.ce}:{hexMasked r.body}"]
      let parts := match q.consumed with | some n => parts ++ [s!"B:{i}:{n}"] | none => parts
      if w.o.cookie ∨ w.o.hdr then parts ++ [s!"H:{i}:{hexMasked (q.cookie.getD [])}"] else parts
    | none => parts) parts
  -- frames and ends, in connection order
  let parts := (List.range w.conns.size).foldl (fun (parts : List String) i =>
    let c := w.conns.getD i default
    let parts := parts ++ c.frames.map fun m => s!"F:{i}:{kindStr m.kind}:{hexMasked m.data}"
    match c.ended with
    | some how => if c.endReported then parts else parts ++ [s!"X:{i}:{if c.wt then "closed" else how}"]
    | none => parts) parts
  let parts := parts ++ (List.range w.socks.size).map fun i =>
    let s := w.sock i
    let trName := (w.tr s.tr).name
    s!"S:{i}:{s.rs.name}:{trName}:{if s.upgrading then 1 else 0}{if s.upgraded then 1 else 0}"
  let reg := w.registry.mergeSort (· ≤ ·)
  let parts := parts ++ [s!"G:{showInts reg}:{reg.length}"]
  let pend := (List.range w.reqs.size).filter fun i => !(w.reqs.getD i default).done
  let parts := parts ++ [s!"P:{showInts pend}"]
  -- the hypothesis of `c12_discard_closes_partial`, evaluated in every world the correspondence visits:
  -- a registered session has a current transport and it is not closed (the harness never prints this token)
  let linkBad := w.registry.filter fun sid =>
    !(decide ((w.sock sid).tr < w.trs.size) && decide ((w.tr (w.sock sid).tr).rs ≠ .closed))
  let parts := if linkBad.isEmpty then parts else parts ++ [s!"LINK!:{showInts linkBad}"]
  -- the conclusion of `c07_every_due_timer_fired_unless_fuel_ran_out`, evaluated in every world the correspondence
  -- visits: no pending timer is due at or before the clock (the harness never prints this token)
  let parts := if (earliest (dueTimers w) w.now).isNone then parts else parts ++ ["LATE!"]
  " ".intercalate parts

/-- the harness's canonical order for the events of a server shutdown -/
def shutdownKey (tok : String) : Nat :=
  let p := tok.splitOn ":"
  let num (s : String) : Nat := ((if s.startsWith "s" then (s.drop 1).toString else s).toNat?).getD 0
  if p.length < 4 then 2 ^ 30 else
  let who := p.getD 2 ""
  if who.startsWith "s" ∧ who ≠ "srv" then num who
  else if who = "srv" ∧ p.length > 4 ∧ (p.getD 4 "").startsWith "s" then num (p.getD 4 "")
  else if who = "req" ∨ who = "srv" then 2 ^ 20 + num (p.getLast?.getD "")
  else 2 ^ 30

def advKey (tok : String) : Nat :=
  let p := tok.splitOn ":"
  ((p.getD 1 "").toNat?.getD 0) * 2 ^ 31 + shutdownKey tok

def insertBy (k : String → Nat) (x : String) : List String → List String
  | [] => [x]
  | y :: rest => if k y ≤ k x then y :: insertBy k x rest else x :: y :: rest

def stableSortBy (k : String → Nat) (l : List String) : List String :=
  l.foldl (fun acc x => insertBy k x acc) []

def parseOpts (f : List String) : Opts :=
  match f with
  | i :: t :: u :: mx :: tr :: up :: e3 :: ini :: ck :: thr :: rest =>
    { I := i.toNat!, T := t.toNat!, U := u.toNat!, maxPayload := mx.toNat!,
      transports := if tr = "default" then ["polling", "websocket"] else tr.splitOn ",",
      upgrades := up = "1", eio3 := e3 = "1",
      -- (r… / R…: the same bytes configured as a plain reader instead of a buffer)
      initial := if ini = "-" then none else
        some (unhex (if ini.startsWith "r" ∨ ini.startsWith "R" then (ini.drop 1).toString else ini)),
      cookie := ck = "1", thr := if thr = "-" then 1024 else thr.toNat!, hdr := rest.head? = some "hdr" }
  | _ => {}

/-- everything but EIO=4 is revision 3 (`Handshake`, `transport.Construct`) -/
def protoOf (tok : String) : Nat := if tok = "4" then 4 else 3

/-- one line of the protocol as an operation of the model -/
def parseOp (toks : List String) : Option Op :=
  match toks with
  | ["hs", "polling", eio, b64, j] => some (.hsPolling (protoOf eio) (b64 = "1") (if j = "-" then none else some (unhex j)))
  | ["hs", "webtransport", _, _, _] => some .hsWt
  | ["wt", s] => if s = "-" then some .hsWt else some (.wtCandidate (sidOf s))
  | ["hs", "websocket", eio, b64, _] => some (.hsWebsocket (protoOf eio) (b64 = "1"))
  | ["poll", s] => some (.poll (sidOf s) [])
  | ["poll", s, ae] => some (.poll (sidOf s) (if ae = "-" ∨ ae = "initial" then [] else unhex ae))
  -- d<n>: a declared length below the body's (and within the limit): the pre-check passes as if nothing were declared
  | ["post", s, k, d, hex] => some (.post (sidOf s) (k = "b") (d = "1") (unhex hex) false)
  | ["postj", s, hex] => some (.post (sidOf s) false true ([100, 61] ++ queryEscape (jsonpClientEscape (unhex hex))) true)
  | ["abort", r] => some (.abort r.toNat!)
  | ["ws", s, eio, b64] =>
    if s = "-" then some (.hsWebsocket (protoOf eio) (b64 = "1")) else some (.wsCandidate (sidOf s) (protoOf eio) (b64 = "1"))
  | ["frame", c, k, hex] => some (.frame c.toNat! (msgOf k hex))
  | ["drop", c] => some (.drop c.toNat!)
  | ["drop", c, code] => some (.closeFrame c.toNat! code.toNat!)
  | "send" :: s :: k :: hex :: cmp :: cb :: rest =>
    let pre := match rest with
      | [p] => if p = "-" then none else some (msgOf (p.take 1).toString (p.drop 1).toString)
      | _ => none
    some (.send (sidOf s) (msgOf k hex) (cmp = "1") (cb = "1") pre)
  | ["close", s, d] => some (.close (sidOf s) (d = "1"))
  | ["shutdown"] => some .shutdown
  | ["adv", d] => some (.adv d.toNat!)
  | _ => none

def sesStep (st : SesState) (noSettle : Bool) (toks : List String) : SesState × String :=
  match toks with
  | "cfg" :: rest => ({ w := init (parseOpts rest) }, "ok")
  | _ =>
    let w := match parseOp toks with
      | some op => step st.w op
      | none => st.w
    if st.w.fault.isSome then (st, "-") else
    if w.fault.isSome then ({ st with w := w }, "fault:" ++ w.fault.getD "") else
    if noSettle then ({ st with w := w }, "-") else
    let w := step w .settle
    let w := if toks = ["shutdown"] then { w with evs := stableSortBy shutdownKey w.evs }
      else if toks.head? = some "adv" then { w with evs := stableSortBy advKey w.evs } else w
    ({ st with w := step w .observe }, reportLine w)

/-- real-time scenarios (QUIC loopback): instants are not compared -/
def zeroStamp (tok : String) : String :=
  if tok.startsWith "E:" then
    match tok.splitOn ":" with
    | "E" :: _ :: rest => ":".intercalate ("E" :: "0" :: rest)
    | _ => tok
  else tok

def sesqStep (st : SesState) (toks : List String) : SesState × String :=
  let (st', out) := sesStep st false toks
  (st', " ".intercalate ((out.splitOn " ").map zeroStamp))

/-- the summary a window scenario ends with: independent of where inside its
    operation a parked goroutine stood -/
def winSummary (w : World) : String :=
  -- (sessions that are closed, once, are not listed)
  let parts := (List.range w.socks.size).filterMap fun i =>
    let n := (w.slog.filter fun e => e.1 == i && e.2.isClose).length
    if (w.sock i).rs = .closed ∧ n ≤ 1 then none else
    some s!"s{i}:{(w.sock i).rs.name}{if n > 1 then s!":x{n}" else ""}"
  let reg := w.registry.mergeSort (· ≤ ·)
  let pend := (List.range w.reqs.size).filter fun i => !(w.reqs.getD i default).done
  let ended := (List.range w.conns.size).filter fun i => (w.conns.getD i default).ended.isSome
  "W " ++ " ".intercalate (parts ++ [s!"G:{showInts reg}:{reg.length}", s!"P:{showInts pend}", s!"X:{showInts ended}"])

/-- window scenarios: the model runs the operations one after the other
    (`arm` / `release` do nothing); only the end is compared -/
def seswStep (st : SesState) (toks : List String) : SesState × String :=
  match toks with
  | "cfg" :: rest => ({ w := init (parseOpts rest) }, "ok")
  | ["end"] => (st, winSummary st.w)
  | _ =>
    match parseOp toks with
    | some op => ({ st with w := step (step (step st.w op) .settle) .observe }, "-")
    | none => (st, "-")

end Driver
