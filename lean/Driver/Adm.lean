import EIO.Spec.Admit
import EIO.Model.Route
import Driver.Util
namespace Driver
open EIO EIO.Admit EIO.Route

structure ASess where
  transport : String
  open_ : Bool := true
  upgrading : Bool := false

structure AdmState where
  cfg : Cfg := ⟨["polling", "websocket"], false, none, false⟩
  sess : Array ASess := #[]
  mux : Option Mux := none
  enginePat : Path := []
  tbl : ErrTable := ⟨Spec.documented⟩

def asciiOf (b : Bytes) : String := String.ofList (b.map fun x => Char.ofNat x.toNat)
def bytesOf (s : String) : Bytes := s.toUTF8.toList

def unCsvHex (s : String) : List String :=
  if s = "-" then [] else (s.splitOn ",").map fun h => if h = "e" then "" else asciiOf (unhex h)

def statesStr (ss : Array ASess) : String :=
  if ss.isEmpty then "-" else
  ss.foldl (fun acc s => acc ++ (if s.open_ then "o" else "c") ++ (if s.upgrading then "^" else "")) ""

def admRegistry (ss : Array ASess) : Registry := fun sid =>
  if sid.startsWith "s" then
    match (sid.drop 1).toString.toNat? with
    | some k => match ss[k]? with
      | some s => if s.open_ then some ⟨s.transport, s.upgrading, false⟩ else none
      | none => none
    | none => none
  else none

def tailStr (ev new : Nat) (regChanged : Bool) (before after : String) : String :=
  let st := if before = "-" then "-" else (after.take before.length).toString
  s!"cerr={ev} new={new} reg={if regChanged then "changed" else "same"} sessions=" ++
    (if st = before then "same" else s!"changed:{before}>{st}")

def admReq (s : AdmState) (kind method tv sidTok ev org : String) : AdmState × String :=
  -- one or more values of the sid parameter, joined by "+": s<n> a session, e the empty string, x<hex> that text
  let sid : List String :=
    if sidTok = "-" then []
    else (sidTok.splitOn "+").map fun tok =>
      if tok = "e" then ""
      else if tok.startsWith "s" then tok
      else asciiOf (unhex (tok.drop 1).toString)
  let r : Request := { upgrade := kind = "ws", method := method, transport := unCsvHex tv, sid := sid,
                       eio := unCsvHex ev, origin := unhex org }
  let before := statesStr s.sess
  let out := serve s.tbl s.cfg (admRegistry s.sess) r
  let same := tailStr 0 0 false before before
  match out with
  | .reject st code msg evs =>
    (s, s!"reject status={st} code={code} msg={hexOf (bytesOf msg)} " ++ tailStr evs 0 false before before)
  | .notImplemented => (s, "reject status=501 raw=4e6f7420496d706c656d656e7465640a " ++ same)
  | .silentClose => (s, "wsclosed close:1006:756e657870656374656420454f46 " ++ same)
  | .lateReject text evs =>
    (s, s!"wsclosed close:1000:{hexOf (bytesOf text)} " ++ tailStr evs 0 false before before)
  | .dispatch sid0 =>
    match admRegistry s.sess sid0 with
    | some cl =>
      if cl.transport = "polling" then
        if method = "GET" ∨ method = "POST" then (s, "admit status=200 " ++ same)
        else (s, "reject status=500 raw=- " ++ same)
      else (s, "pending " ++ same)
    | none => (s, "bad-op")
  | .handshake t _ =>
    if kind = "ws" then
      -- the harness drops the connection after looking: the new session ends closed
      let s' := { s with sess := s.sess.push { transport := t, open_ := false } }
      (s', "admit ws " ++ tailStr 0 1 true before (statesStr (s.sess.push { transport := t })))
    else
      let s' := { s with sess := s.sess.push { transport := t } }
      (s', "admit status=200 " ++ tailStr 0 1 true before (statesStr s'.sess))
  | .candidate sid0 =>
    match (sid0.drop 1).toString.toNat? with
    | some k =>
      let marked := s.sess.modify k fun x => { x with upgrading := true }
      (s, "admit ws " ++ tailStr 0 0 false before (statesStr marked))
    | none => (s, "bad-op")

def parseAttach (spec : String) : Option AttachOpts :=
  if spec = "none" ∨ spec = "server" then none
  else match spec.splitOn ":" with
    | [_, p, sl] =>
      some { path := if p = "-" then none else some (if p = "e" then [] else unhex p),
             addTrailingSlash := if sl = "-" then none else some (sl = "1") }
    | _ => none

def admStep (s : AdmState) (toks : List String) : AdmState × String :=
  match toks with
  | ["cfg", tr, eio3, hook, mw, attach, before, after] =>
    let cfg : Cfg := {
      transports := if tr = "default" then ["polling", "websocket"] else tr.splitOn ",",
      allowEIO3 := eio3 = "1",
      hookRefuses := if hook.startsWith "err:" then some (asciiOf (unhex (hook.drop 4).toString)) else none,
      mwFails := mw = "fail" }
    let pat := computePath (parseAttach attach)
    let bs := (unCsvHex before).map bytesOf
    let as := (unCsvHex after).map bytesOf
    let regs : List Entry := (bs.zipIdx.map fun (p, i) => ⟨p, i + 1⟩) ++ [⟨pat, 0⟩] ++
      (as.zipIdx.map fun (p, i) => ⟨p, i + 1 + bs.length⟩)
    ({ cfg := cfg, sess := #[], mux := ({} : Mux).handleAll regs, enginePat := pat }, "ok")
  | ["mk", t, e] =>
    let r : Request := { upgrade := t = "websocket", method := "GET", transport := [t], sid := [],
                         eio := [e], origin := [] }
    match serve s.tbl s.cfg (admRegistry s.sess) r with
    | .handshake t' _ => ({ s with sess := s.sess.push { transport := t' } }, s!"s{s.sess.size}")
    | _ => (s, "failed")
  | ["kill", k] =>
    ({ s with sess := s.sess.modify k.toNat! fun x => { x with open_ := false } }, "ok")
  | ["req", kind, method, tv, sid, ev, org] => admReq s kind method tv sid ev org
  | "route" :: hex :: _ =>
    -- (the method, when given, plays no part: `ServeMux.Handler` cleans the path of every request)
    match s.mux with
    | none => (s, "panic")
    | some m =>
      match m.route (unhex hex) with
      | none => (s, "default")
      | some e => if e.h = 0 then (s, "engine") else (s, "app:" ++ asciiOf e.pattern)
  | _ => (s, "bad-op")

end Driver
