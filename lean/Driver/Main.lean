import Driver.WT
import Driver.Adm
import Driver.Utl
import Driver.Tm
import Driver.Ses
import Driver.Cors
/- Line-protocol oracle: one op per input line, one canonical answer per
   output line. The first token selects the model family. -/
open Driver

structure St where
  wt : WTState := {}
  adm : AdmState := {}
  utl : UtlState := {}
  tm : TmWorld := {}
  ses : SesState := {}
  cors : CorsState := {}

def step (s : St) (line : String) : St × String :=
  match (line.trimAscii.toString.splitOn " ").filter (· ≠ "") with
  | "wt" :: rest => let (w, o) := wtStep s.wt rest; ({ s with wt := w }, o)
  | "adm" :: rest => let (a, o) := admStep s.adm rest; ({ s with adm := a }, o)
  | "utl" :: rest => let (a, o) := utlStep s.utl rest; ({ s with utl := a }, o)
  | "ses" :: rest => let (a, o) := sesStep s.ses false rest; ({ s with ses := a }, o)
  | "sesq" :: rest => let (a, o) := sesqStep s.ses rest; ({ s with ses := a }, o)
  | "sesw" :: rest => let (a, o) := seswStep s.ses rest; ({ s with ses := a }, o)
  | "ses+" :: rest => let (a, o) := sesStep s.ses true rest; ({ s with ses := a }, o)
  | "cors" :: rest => let (a, o) := corsStep s.cors rest; ({ s with cors := a }, o)
  | "tm" :: rest => let (a, o) := tmStep s.tm rest; ({ s with tm := a }, o)
  | "yeast" :: rest => let (a, o) := yeastStep s.utl rest; ({ s with utl := a }, o)
  | _ => (s, "bad-op")

partial def loop (h : IO.FS.Stream) (out : IO.FS.Stream) (s : St) : IO Unit := do
  let line ← h.getLine
  if line.isEmpty then return ()
  let (s', o) := step s line
  out.putStrLn o
  loop h out s'

def main : IO Unit := do
  let out ← IO.getStdout
  loop (← IO.getStdin) out {}
  out.flush
