import EIO.Model.Cors
import Driver.Util
namespace Driver
open EIO EIO.Cors

def strOfHex (h : String) : String := String.ofList ((unhex h).map fun b => Char.ofNat b.toNat)

def hexOfStr (s : String) : String :=
  if s.isEmpty then "-" else hexOf s.toUTF8.toList

/-- `s:<hex>` a string, `l:<hex>;<hex>` a list (joined with ","), `-` nil -/
def strOrList (tok : String) : Option String :=
  if tok = "-" then none
  else if tok.startsWith "s:" then some (strOfHex (tok.drop 2).toString)
  else if tok.startsWith "l:" then
    some (",".intercalate (((tok.drop 2).toString.splitOn ";").filter (· ≠ "") |>.map strOfHex))
  else none

def parseElems (body : String) : List Elem :=
  let rec go (toks : List String) (nre : Nat) : List Elem :=
    match toks with
    | [] => []
    | t :: rest =>
      if t.startsWith "s" then .str (strOfHex (t.drop 1).toString) :: go rest nre
      else if t.startsWith "r" then .re nre :: go rest (nre + 1)
      else if t = "b1" then .bool true :: go rest nre
      else if t = "b0" then .bool false :: go rest nre
      else go rest nre
  go ((body.splitOn ";").filter (· ≠ "")) 0

def parseOrigin (tok : String) : OriginPol :=
  if tok = "star" ∨ tok = "nil" then .star
  else if tok.startsWith "s:" then
    let s := strOfHex (tok.drop 2).toString
    if s = "*" then .star else .fixed s
  else if tok.startsWith "t:" then .test (parseElems (tok.drop 2).toString)
  else .star

structure CorsState where
  o : Cors.Opts := {}

def insertKV (x : String × String) : List (String × String) → List (String × String)
  | [] => [x]
  | y :: rest => if y.1 ≤ x.1 then y :: insertKV x rest else x :: y :: rest

def corsStep (s : CorsState) (toks : List String) : CorsState × String :=
  match toks with
  | ["cfg", origin, methods, allowed, exposed, maxAge, cred, pfc, status] =>
    ({ o := { origin := parseOrigin origin,
              methods := if methods = "-" then some "GET,HEAD,PUT,PATCH,POST,DELETE" else strOrList methods,
              allowedHeaders := strOrList allowed, exposed := strOrList exposed,
              maxAge := if maxAge = "-" then "" else strOfHex maxAge,
              credentials := cred = "1", preflightContinue := pfc = "1",
              status := if status.toNat! = 0 then 204 else status.toNat! } }, "ok")
  | ["req", method, origin, acrh, bits] =>
    let r : Req := { method, origin := if origin = "-" then "" else strOfHex origin,
                     acrh := if acrh = "-" then "" else strOfHex acrh,
                     reMatch := if bits = "-" then [] else bits.toList.map (· = '1') }
    let out := middleware s.o r
    -- a header set twice keeps its last value; the response's header map has no order
    let dedup := out.headers.foldl (fun acc kv => (acc.filter (·.1 ≠ kv.1)) ++ [kv]) []
    let sorted := dedup.foldl (fun acc kv => insertKV kv acc) []
    let hs := " ".intercalate (sorted.map fun kv => s!"{kv.1}={hexOfStr kv.2}")
    let vs := out.varys.foldl (fun acc v => if acc.contains v then acc else acc ++ [v]) []
    let vs := vs.mergeSort (· ≤ ·)
    (s, s!"next={if out.next then 1 else 0} status={match out.answered with | some n => toString n | none => "-"} {hs} vary={if vs.isEmpty then "-" else ",".intercalate vs}")
  | _ => (s, "bad-op")

end Driver
