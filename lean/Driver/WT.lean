import EIO.Model.WT
import Driver.Util
namespace Driver
open EIO EIO.WT

structure WTState where
  w : WConn := default
  r : RConn := default
  hasReader : Bool := false
  defBuf : Nat := 4096
  hasPrev : Bool := false       -- a reader of an earlier message exists (NextReader has retired it)
  prepared : List (String × Msg) := []     -- prepared messages kept for later (a prepared frame depends on the message only)

def errStr : Option RErr → String
  | none => "-"
  | some .unexpectedEOF => "uEOF"
  | some .eof => "eof"
  | some .readLimit => "limit"
  | some .stream => "stream"
  | some .closeFailed => "closefail"

/-- repeated `Read` calls until `n` bytes, the message end, or an error -/
def readN : Nat → RConn → Nat → Bytes → Bytes × Option RErr × RConn
  | 0, c, _, acc => (acc, none, c)
  | fuel + 1, c, n, acc =>
    if acc.length ≥ n then (acc, none, c) else
    let r := c.readMsg (n - acc.length)
    match r.err with
    | some e => (acc ++ r.data, some e, r.c)
    | none => readN fuel r.c n (acc ++ r.data)

def nextN : Nat → RConn → String × RConn × Bool
  | 0, c => ("", c, false)
  | n + 1, c =>
    match c.nextReader with
    | .reader k c => if n = 0 then ("reader " ++ kindStr k, c, true) else nextN n c
    | .error e c => if n = 0 then ("err " ++ errStr (some e), c, false) else nextN n c
    | .panic c => ("panic", c, false)

def wtStep (s : WTState) (toks : List String) : WTState × String :=
  match toks with
  | ["wnew", srv, wbuf, pool] =>
    ({ s with w := WConn.new (srv = "1") wbuf.toNat! (pool = "1") s.defBuf }, "ok")
  | ["w", api, kind, hex, chunks] =>
    let data := unhex hex
    let k := kindOf kind
    let before := s.w.out.length
    let w' :=
      match api with
      | "msg" => writeMessage s.w ⟨k, data⟩
      | "prepared" => writePrepared s.w s.defBuf ⟨k, data⟩
      | "stream" => writeStream s.w k (splitBy data (parseInts chunks))
      | _ => writeReadFrom s.w k (splitBy data (parseInts chunks))
    ({ s with w := w' }, "wire " ++ hexOf (w'.out.drop before))
  | ["prep", slot, kind, hex] =>
    ({ s with prepared := (slot, ⟨kindOf kind, unhex hex⟩) :: s.prepared.filter (·.1 ≠ slot) }, "ok")
  | ["wprep", slot] =>
    match s.prepared.find? (·.1 = slot) with
    | none => (s, "noprep")
    | some (_, m) =>
      let before := s.w.out.length
      let w' := writePrepared s.w s.defBuf m
      ({ s with w := w' }, "wire " ++ hexOf (w'.out.drop before))
  | "rnew" :: limit :: tl :: cf :: hex :: _ =>
    -- fragment sizes and the bufio size are the implementation's business
    -- t<k>: one read error after k bytes (what the stream would deliver afterwards is never looked at:
    -- the failure is sticky), i.e. the stream cut at k with a failing tail
    let transient := tl.startsWith "t"
    ({ s with r := { input := if transient then (unhex hex).take (tl.drop 1).toString.toNat! else unhex hex,
                     tail := if tl = "f" ∨ transient then .fail else .eof,
                     limit := limit.toNat!, closeFails := cf = "1" }, hasReader := false, hasPrev := false }, "ok")
  | ["next"] =>
    let (o, c, h) := nextN 1 s.r
    ({ s with r := c, hasReader := h, hasPrev := s.hasPrev || s.hasReader }, o)
  | ["readprev", _] =>
    -- a retired reader delivers nothing: `messageReader.Read` returns (0, io.EOF) once the connection has moved on
    if s.hasPrev then (s, "data - eof") else (s, "noreader")
  | ["nextn", n] =>
    let (o, c, h) := nextN n.toNat! s.r
    ({ s with r := c, hasReader := h }, o)
  | ["read", n] =>
    if ¬ s.hasReader then (s, "noreader") else
    let n := n.toNat!
    let (d, e, c) := readN (n + 2) s.r n []
    ({ s with r := c }, "data " ++ hexOf d ++ " " ++ errStr e)
  | ["readall"] =>
    if ¬ s.hasReader then (s, "noreader") else
    let (d, e, c) := s.r.readAll
    ({ s with r := c }, "data " ++ hexOf d ++ " " ++ errStr e)
  | ["msgs"] =>
    let (ms, e, c) := RConn.readMessages (s.r.input.length + 3) s.r []
    let body := ms.foldl (fun acc m => acc ++ " " ++ kindStr m.kind ++ ":" ++ hexOf m.data) "msgs"
    -- a panic ends the loop with `none`; the harness prints "panic" there
    let tailS := match e with
      | none => if c.errCount ≥ errGuard then "panic" else "-"
      | some _ => errStr e
    ({ s with r := c, hasReader := false }, body ++ " err " ++ tailS)
  -- the caller closes the reader it holds: `messageReader.Close` is a no-op
  | ["rclose"] => (s, "ok")
  | ["closes"] => (s, "closes " ++ showInts s.r.closes)
  | _ => (s, "bad-op")

end Driver
