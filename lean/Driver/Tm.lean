import EIO.Model.Timer
import Driver.Util
namespace Driver
open EIO EIO.Timer

structure TmWorld where
  now : Nat := 0
  timers : Array Tm := #[]
  self : List (Nat × Nat) := []      -- intervals whose callback cancels them after that many more runs
  again : List (Nat × Nat) := []     -- timeouts whose callback re-arms them (Refresh) on that many more runs

/-- earliest timer due by `target` that has a waiter (ties: lowest index) -/
def nextDue (ts : Array Tm) (target : Nat) : Option (Nat × Nat) :=
  (List.range ts.size).foldl (fun best i =>
    match ts[i]? with
    | some t => match t.due with
      | some d => if d ≤ target ∧ t.waiters > 0 then
          match best with
          | some (_, bd) => if d < bd then some (i, d) else best
          | none => some (i, d)
        else best
      | none => best
    | none => best) none

def advanceAll : Nat → Array Tm → List (Nat × Nat) → List (Nat × Nat) → Nat → List String →
    Array Tm × List (Nat × Nat) × List (Nat × Nat) × List String
  | 0, ts, self, again, _, acc => (ts, self, again, acc)
  | fuel + 1, ts, self, again, target, acc =>
    match nextDue ts target with
    | some (i, d) =>
      let ts := ts.modify i fun t => t.fire d
      -- a callback that re-arms its own timeout
      let ra : Array Tm × List (Nat × Nat) := match again.find? (·.1 = i) with
        | some (_, n) =>
          if n = 0 then (ts, again)
          else (ts.modify i fun t => t.refresh d, again.map fun (x : Nat × Nat) => if x.1 = i then (i, n - 1) else x)
        | none => (ts, again)
      let ts := ra.1
      let again := ra.2
      -- a callback that cancels its own interval on its last run
      let (ts, self) := match self.find? (·.1 = i) with
        | some (_, n) =>
          if n ≤ 1 then (ts.modify i Tm.stop, self.filter (·.1 ≠ i))
          else (ts, self.map fun x => if x.1 = i then (i, n - 1) else x)
        | none => (ts, self)
      advanceAll fuel ts self again target (acc ++ [s!"{i}@{d}"])
    | none => (ts, self, again, acc)

def tmAnswer (w : TmWorld) (fired : List String) : String :=
  let g := w.timers.foldl (fun n t => n + t.waiters) 0
  s!"fired={if fired.isEmpty then "-" else ",".intercalate fired} g={g}"

def setAt (ts : Array Tm) (k : Nat) (t : Tm) : Array Tm :=
  if k < ts.size then ts.set! k t else ts.push t

def tmStep (w : TmWorld) (toks : List String) : TmWorld × String :=
  match toks with
  | ["cfg"] => ({}, "ok")
  | ["timeout", k, p] =>
    let w := { w with timers := setAt w.timers k.toNat! (Tm.start false p.toNat! w.now) }; (w, tmAnswer w [])
  | ["interval", k, p] =>
    let w := { w with timers := setAt w.timers k.toNat! (Tm.start true p.toNat! w.now) }; (w, tmAnswer w [])
  | ["refresh", k] =>
    let w := { w with timers := w.timers.modify k.toNat! fun t => t.refresh w.now }; (w, tmAnswer w [])
  | ["stop", k] =>
    let w := { w with timers := w.timers.modify k.toNat! Tm.stop }; (w, tmAnswer w [])
  -- created and cancelled (or refreshed and cancelled) back to back, nothing scheduled in between
  | ["timeoutstop", k, p] =>
    let w := { w with timers := setAt w.timers k.toNat! (Tm.start false p.toNat! w.now).stop }; (w, tmAnswer w [])
  | ["intervalstop", k, p] =>
    let w := { w with timers := setAt w.timers k.toNat! (Tm.start true p.toNat! w.now).stop }; (w, tmAnswer w [])
  | ["refreshstop", k] =>
    let w := { w with timers := w.timers.modify k.toNat! fun t => (t.refresh w.now).stop }; (w, tmAnswer w [])
  | ["clearnil"] => (w, tmAnswer w [])
  | ["intervalself", k, p, n] =>
    let w := { w with timers := setAt w.timers k.toNat! (Tm.start true p.toNat! w.now),
                      self := (w.self.filter (·.1 ≠ k.toNat!)) ++ [(k.toNat!, n.toNat!)] }
    (w, tmAnswer w [])
  | ["timeoutself", k, p, n] =>
    let w := { w with timers := setAt w.timers k.toNat! (Tm.start false p.toNat! w.now),
                      again := (w.again.filter (·.1 ≠ k.toNat!)) ++ [(k.toNat!, n.toNat!)] }
    (w, tmAnswer w [])
  | ["sleep", d] =>
    let target := w.now + d.toNat!
    let (ts, self, again, fired) := advanceAll ((d.toNat! + 2) * (w.timers.size + 1)) w.timers w.self w.again target []
    let w := { now := target, timers := ts, self := self, again := again }
    (w, tmAnswer w fired)
  | ["stopat", k, d] =>
    let target := w.now + d.toNat!
    let (ts, self, again, _) := advanceAll ((d.toNat! + 2) * (w.timers.size + 1)) w.timers w.self w.again target []
    let w : TmWorld := { now := target, timers := ts.modify k.toNat! Tm.stop, self := self, again := again }
    let g := w.timers.foldl (fun n t => n + t.waiters) 0
    (w, s!"stopat g={g}")
  | _ => (w, "bad-op")

end Driver
