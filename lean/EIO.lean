import EIO.Base.Bytes
import EIO.Model.WT
