import EIO.Base.Bytes
import EIO.Model.WT
import EIO.Spec.WT
import EIO.Lemmas.WTWriter
import EIO.Lemmas.WTReader
import EIO.Props.C13
import EIO.Props.C14
import EIO.Props.C15
