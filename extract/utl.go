package main

import (
	"go/ast"
	"go/token"
	"sort"
	"strconv"
	"strings"
)

func init() { moreFacts = append(moreFacts, factsUtl) }

// lockCensus: for every method of recv in pkg p: which lock call opens it, is
// the matching unlock deferred, and does it assign to / index-assign the guarded field.
func lockCensus(p *pkg, recv, field string) (census []string, unlocked []string) {
	for _, f := range p.files {
		for _, d := range f.Decls {
			fd, ok := d.(*ast.FuncDecl)
			if !ok || fd.Recv == nil || fd.Body == nil {
				continue
			}
			t := fd.Recv.List[0].Type
			if s, ok := t.(*ast.StarExpr); ok {
				t = s.X
			}
			if ix, ok := t.(*ast.IndexExpr); ok {
				t = ix.X
			}
			if id, ok := t.(*ast.Ident); !ok || id.Name != recv {
				continue
			}
			touches, writes := false, false
			ast.Inspect(fd.Body, func(n ast.Node) bool {
				if se, ok := n.(*ast.SelectorExpr); ok && se.Sel.Name == field {
					touches = true
				}
				if as, ok := n.(*ast.AssignStmt); ok {
					for _, l := range as.Lhs {
						if strings.Contains(p.src(l), "."+field) {
							writes = true
						}
					}
				}
				if c, ok := n.(*ast.CallExpr); ok && p.src(c.Fun) == "delete" && len(c.Args) > 0 && strings.Contains(p.src(c.Args[0]), "."+field) {
					writes = true
				}
				return true
			})
			lock := "none"
			deferred := false
			for i, st := range fd.Body.List {
				if es, ok := st.(*ast.ExprStmt); ok {
					src := p.src(es.X)
					if strings.HasSuffix(src, ".mu.Lock()") {
						lock = "Lock"
					} else if strings.HasSuffix(src, ".mu.RLock()") {
						lock = "RLock"
					} else {
						continue
					}
					if i+1 < len(fd.Body.List) {
						if ds, ok := fd.Body.List[i+1].(*ast.DeferStmt); ok {
							u := p.src(ds.Call)
							deferred = (lock == "Lock" && strings.HasSuffix(u, ".mu.Unlock()")) || (lock == "RLock" && strings.HasSuffix(u, ".mu.RUnlock()"))
						}
					}
					break
				}
			}
			exported := ast.IsExported(fd.Name.Name)
			if !touches && lock == "none" {
				continue
			}
			state := lock
			if lock != "none" && !deferred {
				state += "-not-deferred"
			}
			if writes && lock == "RLock" {
				state += "-WRITES"
			}
			if exported {
				census = append(census, fd.Name.Name+":"+state)
			} else if lock != "none" {
				census = append(census, fd.Name.Name+":"+state)
			}
			if exported && touches && lock == "none" {
				unlocked = append(unlocked, fd.Name.Name)
			}
		}
	}
	sort.Strings(census)
	sort.Strings(unlocked)
	return
}

// appendFirstArgs lists the first argument of every append call in fd.
func appendFirstArgs(p *pkg, fd *ast.FuncDecl) []string {
	var out []string
	if fd == nil {
		return nil
	}
	ast.Inspect(fd.Body, func(n ast.Node) bool {
		if c, ok := n.(*ast.CallExpr); ok {
			if id, ok := c.Fun.(*ast.Ident); ok && id.Name == "append" && len(c.Args) > 0 {
				out = append(out, p.src(c.Args[0]))
			}
		}
		return true
	})
	return out
}

func factsUtl(f *facts) {
	tp := loadPkg("types")
	c, u := lockCensus(tp, "Slice", "elements")
	f.strs("slice_lock_census", c, true)
	f.strs("slice_unlocked_exported", u, true)
	c, u = lockCensus(tp, "Set", "cache")
	f.strs("set_lock_census", c, true)
	f.strs("set_unlocked_exported", u, true)
	f.strs("slice_unshift_appends", appendFirstArgs(tp, tp.fn("Slice", "Unshift")), tp.fn("Slice", "Unshift") != nil)
	f.strs("slice_splice_appends", appendFirstArgs(tp, tp.fn("Slice", "splice")), tp.fn("Slice", "splice") != nil)
	f.strs("slice_push_appends", appendFirstArgs(tp, tp.fn("Slice", "Push")), tp.fn("Slice", "Push") != nil)
	// splice's guards in order (the conditions that return an error)
	var guards []string
	if sp := tp.fn("Slice", "splice"); sp != nil {
		for _, st := range sp.Body.List {
			if is, ok := st.(*ast.IfStmt); ok {
				guards = append(guards, tp.src(is.Cond))
			}
		}
	}
	f.strs("slice_splice_guards", guards, tp.fn("Slice", "splice") != nil)
	// emitter: the nil guards
	rm := tp.fn("emmiter", "RemoveListener")
	match := ""
	if rm != nil {
		ast.Inspect(rm.Body, func(n ast.Node) bool {
			if fl, ok := n.(*ast.FuncLit); ok && match == "" {
				ast.Inspect(fl.Body, func(m ast.Node) bool {
					if r, ok := m.(*ast.ReturnStmt); ok && len(r.Results) == 4 {
						match = tp.src(r.Results[0])
					}
					return true
				})
			}
			return true
		})
	}
	f.str("emitter_remove_match", match, match != "")

	up := loadPkg("utils")
	// base64id layout
	gi := up.fn("base64Id", "GenerateId")
	var n, off int64
	okN, okOff := false, false
	enc := ""
	if gi != nil {
		ast.Inspect(gi.Body, func(x ast.Node) bool {
			switch v := x.(type) {
			case *ast.CallExpr:
				if id, ok := v.Fun.(*ast.Ident); ok && id.Name == "make" && len(v.Args) == 2 {
					n, okN = up.evalInt(v.Args[1])
				}
				if strings.HasSuffix(up.src(v.Fun), "EncodeToString") {
					enc = up.src(v.Fun)
				}
			case *ast.SliceExpr:
				if v.Low != nil && v.High == nil {
					off, okOff = up.evalInt(v.Low)
				}
			}
			return true
		})
	}
	f.nat("b64id_bytes", n, okN)
	f.nat("b64id_seq_offset", off, okOff)
	f.str("b64id_encoding", enc, enc != "")
	// yeast alphabet and the mutex
	alpha := ""
	for _, file := range up.files {
		for _, d := range file.Decls {
			gd, ok := d.(*ast.GenDecl)
			if !ok || gd.Tok != token.VAR {
				continue
			}
			for _, s := range gd.Specs {
				vs := s.(*ast.ValueSpec)
				for i, nm := range vs.Names {
					if nm.Name == "alphabet" && i < len(vs.Values) {
						if cl, ok := vs.Values[i].(*ast.CompositeLit); ok {
							for _, el := range cl.Elts {
								if bl, ok := el.(*ast.BasicLit); ok {
									s, _ := strconv.Unquote(bl.Value)
									alpha += s
								}
							}
						}
					}
				}
			}
		}
	}
	f.str("yeast_alphabet", alpha, alpha != "")
	yl, _ := lockCensus(up, "Yeast", "prev")
	f.strs("yeast_lock_census", yl, true)
	if v, ok := up.consts["length"]; ok {
		_ = v
		l, ok2 := up.evalInt(&ast.Ident{Name: "length"})
		f.nat("yeast_base", l, ok2)
	} else {
		f.nat("yeast_base", 0, false)
	}
}
