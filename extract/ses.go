package main

import (
	"go/ast"
	"strings"
)

func init() { moreFacts = append(moreFacts, factsSes) }

// skeleton: the statements of a function in source order, compound statements
// as open/close tokens, function literals pulled out and walked the same way,
// logging and verification yield points dropped, whitespace normalised. It pins
// the guards, the order of state changes and events, and the calls the session
// model was written from.
func (p *pkg) skeleton(body *ast.BlockStmt) []string {
	var out []string
	if body != nil {
		p.skel(body.List, &out)
	}
	return out
}

func skipCall(s string) bool {
	return strings.Contains(s, "_log.") || strings.HasPrefix(s, "utils.VerifYield(") || strings.HasPrefix(s, "VerifYield(")
}

// text prints n, abstracts outermost function literals to func#k, and returns them
func (p *pkg) text(n ast.Node) (string, []*ast.FuncLit) {
	if n == nil {
		return "", nil
	}
	s := p.src(n)
	var lits []*ast.FuncLit
	ast.Inspect(n, func(m ast.Node) bool {
		if fl, ok := m.(*ast.FuncLit); ok {
			lits = append(lits, fl)
			return false
		}
		return true
	})
	for _, fl := range lits {
		s = strings.Replace(s, p.src(fl), "func#", 1)
	}
	return s, lits
}

func (p *pkg) emit(out *[]string, prefix string, n ast.Node, suffix string) {
	s, lits := p.text(n)
	*out = append(*out, strings.TrimSpace(prefix+s+suffix))
	for _, fl := range lits {
		*out = append(*out, "func# {")
		p.skel(fl.Body.List, out)
		*out = append(*out, "}")
	}
}

func (p *pkg) skel(stmts []ast.Stmt, out *[]string) {
	for _, s := range stmts {
		switch x := s.(type) {
		case *ast.IfStmt:
			if x.Init != nil {
				p.skel([]ast.Stmt{x.Init}, out)
			}
			p.emit(out, "if ", x.Cond, " {")
			p.skel(x.Body.List, out)
			for x.Else != nil {
				if ei, ok := x.Else.(*ast.IfStmt); ok {
					if ei.Init != nil {
						*out = append(*out, "} else {")
						p.skel([]ast.Stmt{ei}, out)
						break
					}
					p.emit(out, "} else if ", ei.Cond, " {")
					p.skel(ei.Body.List, out)
					x = ei
					continue
				}
				*out = append(*out, "} else {")
				p.skel(x.Else.(*ast.BlockStmt).List, out)
				break
			}
			*out = append(*out, "}")
		case *ast.SwitchStmt:
			if x.Init != nil {
				p.skel([]ast.Stmt{x.Init}, out)
			}
			if x.Tag != nil {
				p.emit(out, "switch ", x.Tag, " {")
			} else {
				*out = append(*out, "switch {")
			}
			for _, c := range x.Body.List {
				cc := c.(*ast.CaseClause)
				if cc.List == nil {
					*out = append(*out, "default:")
				} else {
					var parts []string
					for _, e := range cc.List {
						parts = append(parts, p.src(e))
					}
					*out = append(*out, "case "+strings.Join(parts, ", ")+":")
				}
				p.skel(cc.Body, out)
			}
			*out = append(*out, "}")
		case *ast.TypeSwitchStmt:
			p.emit(out, "switch ", x.Assign, " {")
			for _, c := range x.Body.List {
				cc := c.(*ast.CaseClause)
				if cc.List == nil {
					*out = append(*out, "default:")
				} else {
					var parts []string
					for _, e := range cc.List {
						parts = append(parts, p.src(e))
					}
					*out = append(*out, "case "+strings.Join(parts, ", ")+":")
				}
				p.skel(cc.Body, out)
			}
			*out = append(*out, "}")
		case *ast.ForStmt:
			h := "for "
			if x.Init != nil {
				h += p.src(x.Init)
			}
			h += "; "
			if x.Cond != nil {
				h += p.src(x.Cond)
			}
			h += "; "
			if x.Post != nil {
				h += p.src(x.Post)
			}
			*out = append(*out, h+" {")
			p.skel(x.Body.List, out)
			*out = append(*out, "}")
		case *ast.RangeStmt:
			h := "for "
			if x.Key != nil {
				h += p.src(x.Key)
			}
			if x.Value != nil {
				h += ", " + p.src(x.Value)
			}
			p.emit(out, h+" := range ", x.X, " {")
			p.skel(x.Body.List, out)
			*out = append(*out, "}")
		case *ast.SelectStmt:
			*out = append(*out, "select {")
			for _, c := range x.Body.List {
				cc := c.(*ast.CommClause)
				if cc.Comm == nil {
					*out = append(*out, "default:")
				} else {
					*out = append(*out, "case "+p.src(cc.Comm)+":")
				}
				p.skel(cc.Body, out)
			}
			*out = append(*out, "}")
		case *ast.BlockStmt:
			*out = append(*out, "{")
			p.skel(x.List, out)
			*out = append(*out, "}")
		case *ast.LabeledStmt:
			*out = append(*out, x.Label.Name+":")
			p.skel([]ast.Stmt{x.Stmt}, out)
		case *ast.ExprStmt:
			if ce, ok := x.X.(*ast.CallExpr); ok && skipCall(p.src(ce.Fun)+"(") {
				continue
			}
			p.emit(out, "", x, "")
		default:
			p.emit(out, "", s, "")
		}
	}
}

func (f *facts) skeletonOf(p *pkg, pkgName, recv, name string) {
	fact := "skel_" + pkgName + "_" + recv + "_" + name
	fd := p.fn(recv, name)
	if fd == nil || fd.Body == nil {
		f.strs(fact, nil, false)
		return
	}
	sk := p.skeleton(fd.Body)
	if sk == nil {
		sk = []string{}
	}
	f.strs(fact, sk, true)
}

// assignedConst finds `<sel> = <const expr>` inside fn and evaluates the right side.
func (p *pkg) assignedConst(fd *ast.FuncDecl, lhsSuffix string) (int64, bool) {
	var v int64
	found := 0
	if fd == nil {
		return 0, false
	}
	ast.Inspect(fd.Body, func(n ast.Node) bool {
		if as, ok := n.(*ast.AssignStmt); ok && len(as.Lhs) == 1 && len(as.Rhs) == 1 && strings.HasSuffix(p.src(as.Lhs[0]), lhsSuffix) {
			if c, ok := p.evalInt(as.Rhs[0]); ok {
				v = c
				found++
			}
		}
		return true
	})
	return v, found == 1
}

// callArgConst finds the single call `<…>.<method>(arg)` in fn and evaluates arg number idx.
func (p *pkg) callArgConst(fd *ast.FuncDecl, calleeSuffix string, idx int) (int64, bool) {
	var v int64
	found := 0
	if fd == nil {
		return 0, false
	}
	ast.Inspect(fd.Body, func(n ast.Node) bool {
		if ce, ok := n.(*ast.CallExpr); ok && strings.HasSuffix(p.src(ce.Fun), calleeSuffix) && len(ce.Args) > idx {
			if c, ok := p.evalInt(ce.Args[idx]); ok {
				v = c
				found++
			} else {
				found += 100
			}
		}
		return true
	})
	return v, found == 1
}

func factsSes(f *facts) {
	eng := loadPkg("engine")
	tr := loadPkg("transports")
	for _, n := range []string{"onOpen", "onPacket", "onError", "schedulePing", "resetPingTimeout", "resetPingTimeoutDuration",
		"setTransport", "onDrain", "MaybeUpgrade", "clearTransport", "OnClose", "sendPacket", "flush", "getAvailableUpgrades",
		"Close", "closeTransport"} {
		f.skeletonOf(eng, "engine", "socket", n)
	}
	for _, n := range []string{"Close", "OnError", "OnPacket", "OnData", "OnClose", "Discard"} {
		f.skeletonOf(tr, "transports", "transport", n)
	}
	for _, n := range []string{"OnRequest", "onPollRequest", "onDataRequest", "OnData", "OnClose", "Send", "send", "write", "DoWrite", "DoClose", "headers"} {
		f.skeletonOf(tr, "transports", "polling", n)
	}
	for _, n := range []string{"message", "onMessage", "Send", "send", "write", "DoClose"} {
		f.skeletonOf(tr, "transports", "websocket", n)
	}
	for _, n := range []string{"message", "onMessage", "Send", "send", "write", "DoClose"} {
		f.skeletonOf(tr, "transports", "webTransport", n)
	}
	for _, n := range []string{"OnData", "DoWrite"} {
		f.skeletonOf(tr, "transports", "jsonp", n)
	}
	f.skeletonOf(tr, "transports", "", "acceptedEncoding")
	for _, n := range []string{"Handshake", "Close", "Verify"} {
		f.skeletonOf(eng, "engine", "baseServer", n)
	}
	for _, n := range []string{"HandleRequest", "HandleUpgrade", "onWebSocket", "OnWebTransportSession", "ServeHTTP", "Cleanup"} {
		f.skeletonOf(eng, "engine", "server", n)
	}
	ty := loadPkg("types")
	for _, n := range []string{"isOriginAllowed", "configureOrigin", "configureMethods", "configureCredentials", "configureAllowedHeaders",
		"configureExposedHeaders", "configureMaxAge", "applyHeaders"} {
		f.skeletonOf(ty, "types", "cors", n)
	}
	for _, n := range []string{"Write", "Flush"} {
		f.skeletonOf(ty, "types", "HttpContext", n)
	}
	f.skeletonOf(ty, "types", "", "CorsMiddleware")
	f.skeletonOf(ty, "types", "", "MiddlewareWrapper")
	ut := loadPkg("utils")
	f.skeletonOf(ut, "utils", "Yeast", "Yeast")
	// constants of the timing model, in milliseconds
	ms := func(name string, v int64, ok bool) { f.nat(name, v/1e6, ok && v%1e6 == 0) }
	v, ok := tr.assignedConst(tr.fn("polling", "Construct"), ".closeTimeout")
	ms("ses_close_timeout_polling_ms", v, ok)
	v, ok = tr.assignedConst(tr.fn("websocket", "Construct"), ".closeTimeout")
	ms("ses_close_timeout_websocket_ms", v, ok)
	v, ok = eng.callArgConst(eng.fn("socket", "MaybeUpgrade"), "utils.SetInterval", 1)
	ms("ses_upgrade_check_period_ms", v, ok)
	// defaults of the server options
	var ctor *ast.FuncDecl
	for _, cand := range []string{"Construct"} {
		ctor = eng.fn("baseServer", cand)
	}
	v, ok = eng.callArgConst(ctor, ".SetPingTimeout", 0)
	ms("ses_default_ping_timeout_ms", v, ok)
	v, ok = eng.callArgConst(ctor, ".SetPingInterval", 0)
	ms("ses_default_ping_interval_ms", v, ok)
	v, ok = eng.callArgConst(ctor, ".SetUpgradeTimeout", 0)
	ms("ses_default_upgrade_timeout_ms", v, ok)
	v, ok = eng.callArgConst(ctor, ".SetMaxHttpBufferSize", 0)
	f.nat("ses_default_max_payload", v, ok)
}
