package main

import (
	"go/ast"
	"go/token"
	"os"
	"path/filepath"
	"regexp"
	"strconv"
	"strings"
)

func init() { moreFacts = append(moreFacts, factsAdm) }

// returnIdents lists, in source order, the first operand of every return
// statement of fd that is an identifier other than nil.
func returnIdents(fd *ast.FuncDecl) []string {
	var out []string
	if fd == nil {
		return nil
	}
	ast.Inspect(fd.Body, func(n ast.Node) bool {
		if _, ok := n.(*ast.FuncLit); ok {
			return false // closures return for themselves
		}
		if r, ok := n.(*ast.ReturnStmt); ok && len(r.Results) > 0 {
			if id, ok := r.Results[0].(*ast.Ident); ok && id.Name != "nil" {
				out = append(out, id.Name)
			}
		}
		return true
	})
	return out
}

func factsAdm(f *facts) {
	p := loadPkg("engine")
	// the CodeMessage table
	names := []string{"UNKNOWN_TRANSPORT", "UNKNOWN_SID", "BAD_HANDSHAKE_METHOD", "BAD_REQUEST", "FORBIDDEN", "UNSUPPORTED_PROTOCOL_VERSION"}
	found := map[string][2]string{}
	for _, file := range p.files {
		for _, d := range file.Decls {
			gd, ok := d.(*ast.GenDecl)
			if !ok || gd.Tok != token.VAR {
				continue
			}
			for _, s := range gd.Specs {
				vs := s.(*ast.ValueSpec)
				for i, n := range vs.Names {
					if i >= len(vs.Values) {
						continue
					}
					var cl *ast.CompositeLit
					switch v := vs.Values[i].(type) {
					case *ast.UnaryExpr:
						cl, _ = v.X.(*ast.CompositeLit)
					case *ast.CompositeLit:
						cl = v
					}
					if cl == nil || !strings.HasSuffix(p.src(cl.Type), "CodeMessage") {
						continue
					}
					code, msg := "", ""
					for _, el := range cl.Elts {
						if kv, ok := el.(*ast.KeyValueExpr); ok {
							switch p.src(kv.Key) {
							case "Code":
								if v, ok := p.evalInt(kv.Value); ok {
									code = strconv.FormatInt(v, 10)
								}
							case "Message":
								if bl, ok := kv.Value.(*ast.BasicLit); ok {
									if s, err := strconv.Unquote(bl.Value); err == nil {
										msg = s
									}
								}
							}
						}
					}
					found[n.Name] = [2]string{code, msg}
				}
			}
		}
	}
	for _, n := range names {
		v, ok := found[n]
		c, err := strconv.ParseInt(v[0], 10, 64)
		f.nat("adm_code_"+n, c, ok && err == nil)
		f.str("adm_msg_"+n, v[1], ok && v[1] != "")
	}
	f.strs("adm_verify_returns", returnIdents(p.fn("baseServer", "Verify")), p.fn("baseServer", "Verify") != nil)
	f.strs("adm_handshake_returns", returnIdents(p.fn("baseServer", "Handshake")), p.fn("baseServer", "Handshake") != nil)

	// abortRequest: default status and the status for FORBIDDEN
	ar := p.fn("", "abortRequest")
	var defSt, forbSt int64
	okD, okF := false, false
	if ar != nil {
		ast.Inspect(ar.Body, func(n ast.Node) bool {
			switch x := n.(type) {
			case *ast.AssignStmt:
				if len(x.Lhs) == 1 && p.src(x.Lhs[0]) == "statusCode" {
					if v, ok := p.evalInt(x.Rhs[0]); ok {
						if x.Tok == token.DEFINE {
							defSt, okD = v, true
						}
					}
				}
			case *ast.IfStmt:
				if strings.Contains(p.src(x.Cond), "FORBIDDEN") {
					ast.Inspect(x.Body, func(m ast.Node) bool {
						if a, ok := m.(*ast.AssignStmt); ok && p.src(a.Lhs[0]) == "statusCode" {
							forbSt, okF = p.evalInt(a.Rhs[0])
						}
						return true
					})
				}
			}
			return true
		})
	}
	f.nat("adm_abort_status_default", defSt, okD)
	f.nat("adm_abort_status_forbidden", forbSt, okF)

	// ComputePath: default path literal and default of the trailing slash
	cp := p.fn("baseServer", "ComputePath")
	defPath, defSlash := "", ""
	if cp != nil {
		for _, st := range cp.Body.List { // top-level statements only: the defaults
			if as, ok := st.(*ast.AssignStmt); ok && as.Tok == token.DEFINE && len(as.Rhs) == 1 {
				switch v := as.Rhs[0].(type) {
				case *ast.BasicLit:
					if v.Kind == token.STRING && defPath == "" {
						defPath, _ = strconv.Unquote(v.Value)
					}
				case *ast.Ident:
					if v.Name == "true" || v.Name == "false" {
						defSlash = v.Name
					}
				}
			}
		}
	}
	f.str("adm_compute_default_path", defPath, defPath != "")
	f.str("adm_compute_default_slash", defSlash, defSlash != "")

	// ServeMux.appendSorted: a sort.Search over pattern lengths
	tp := loadPkg("types")
	as := tp.fn("", "appendSorted")
	cmp := ""
	if as != nil {
		ast.Inspect(as.Body, func(n ast.Node) bool {
			if c, ok := n.(*ast.CallExpr); ok && p.src(c.Fun) == "sort.Search" && len(c.Args) == 2 {
				if fl, ok := c.Args[1].(*ast.FuncLit); ok && len(fl.Body.List) == 1 {
					if r, ok := fl.Body.List[0].(*ast.ReturnStmt); ok && len(r.Results) == 1 {
						cmp = tp.src(r.Results[0])
					}
				}
			}
			return true
		})
	}
	f.str("adm_append_sorted_search", cmp, cmp != "")

	// README: the documented code / message table
	rd, err := os.ReadFile(filepath.Join(repo, "README.md"))
	re := regexp.MustCompile(`(?m)^\|\s*(\d+)\s*\|\s*"([^"]+)"`)
	doc := map[string]string{}
	if err == nil {
		for _, m := range re.FindAllStringSubmatch(string(rd), -1) {
			doc[m[1]] = m[2]
		}
	}
	for i := 0; i < 6; i++ {
		k := strconv.Itoa(i)
		v, ok := doc[k]
		f.str("adm_readme_code_"+k, v, ok)
	}
}
