package main

import (
	"go/ast"
	"go/token"
)

// factsWT: webtransport/conn.go and prepared.go.
func factsWT(f *facts) {
	p := loadPkg("webtransport")
	c := func(name string) {
		v, ok := p.consts[name]
		if !ok {
			f.nat("wt_"+name, 0, false)
			return
		}
		i, ok2 := p.evalInt(&ast.Ident{Name: name})
		_ = v
		f.nat("wt_"+name, i, ok2)
	}
	for _, n := range []string{"maxFrameHeaderSize", "defaultReadBufferSize", "defaultWriteBufferSize",
		"TextMessage", "BinaryMessage", "CloseMessageTooBig"} {
		c(n)
	}

	// flushFrame: the length classes, frame positions and length markers
	ff := p.fn("messageWriter", "flushFrame")
	var thr64, thr16, pos16, pos8, mark64, mark16 int64
	var ok64, ok16, okp16, okp8, okm64, okm16 bool
	typeBit := ""
	if ff != nil {
		ast.Inspect(ff.Body, func(n ast.Node) bool {
			if as, ok := n.(*ast.AssignStmt); ok && len(as.Lhs) == 1 {
				if id, ok := as.Lhs[0].(*ast.Ident); ok && id.Name == "b0" && as.Tok == token.DEFINE {
					typeBit = p.src(as.Rhs[0])
				}
			}
			sw, ok := n.(*ast.SwitchStmt)
			if !ok || sw.Tag != nil {
				return true
			}
			for _, cc := range sw.Body.List {
				cl := cc.(*ast.CaseClause)
				var posInc int64
				var mark int64
				hasPos, hasMark := false, false
				for _, st := range cl.Body {
					ast.Inspect(st, func(m ast.Node) bool {
						if as, ok := m.(*ast.AssignStmt); ok && as.Tok == token.ADD_ASSIGN {
							if id, ok := as.Lhs[0].(*ast.Ident); ok && id.Name == "framePos" {
								posInc, hasPos = p.evalInt(as.Rhs[0])
							}
						}
						if as, ok := m.(*ast.AssignStmt); ok && as.Tok == token.ASSIGN && len(as.Rhs) == 1 {
							// c.writeBuf[framePos] = b1 | <mark> | b0
							if _, ok := as.Lhs[0].(*ast.IndexExpr); ok {
								ast.Inspect(as.Rhs[0], func(q ast.Node) bool {
									if bl, ok := q.(*ast.BasicLit); ok {
										mark, hasMark = p.evalInt(bl)
									}
									return true
								})
							}
						}
						return true
					})
				}
				if len(cl.List) == 1 {
					if be, ok := cl.List[0].(*ast.BinaryExpr); ok {
						if id, ok := be.X.(*ast.Ident); ok && id.Name == "length" {
							v, okv := p.evalInt(be.Y)
							switch be.Op {
							case token.GEQ: // length >= N
							case token.GTR: // length > N  ==  length >= N+1
								v++
							default:
								okv = false
							}
							// the larger threshold is the 64-bit class
							if okv && v > 1000 {
								thr64, ok64 = v, true
								mark64, okm64 = mark, hasMark
								if hasPos { // the 64-bit frame must start at 0
									ok64 = false
								}
							} else if okv {
								thr16, ok16 = v-1, true // reported in the `length > N` form
								pos16, okp16 = posInc, hasPos
								mark16, okm16 = mark, hasMark
							}
						}
					}
				} else if len(cl.List) == 0 { // default
					pos8, okp8 = posInc, hasPos
				}
			}
			return false
		})
	}
	f.nat("wt_flush_thr64", thr64, ok64)
	f.nat("wt_flush_thr16", thr16, ok16)
	f.nat("wt_flush_pos16", pos16, okp16)
	f.nat("wt_flush_pos8", pos8, okp8)
	f.nat("wt_flush_mark64", mark64, okm64)
	f.nat("wt_flush_mark16", mark16, okm16)
	f.str("wt_flush_typebit", typeBit, typeBit != "")

	// every call of flushFrame passes final = true (no continuation frames)
	nonFinal := int64(0)
	calls := int64(0)
	for _, file := range p.files {
		ast.Inspect(file, func(n ast.Node) bool {
			if c, ok := n.(*ast.CallExpr); ok {
				if se, ok := c.Fun.(*ast.SelectorExpr); ok && se.Sel.Name == "flushFrame" && len(c.Args) == 2 {
					calls++
					if id, ok := c.Args[0].(*ast.Ident); !ok || id.Name != "true" {
						nonFinal++
					}
				}
			}
			return true
		})
	}
	f.nat("wt_flush_calls", calls, calls > 0)
	f.nat("wt_flush_nonfinal_calls", nonFinal, calls > 0)

	// advanceFrame: masks, extended-length markers and widths, limit test
	af := p.fn("Conn", "advanceFrame")
	var kindMask, lenMask, kindShift int64
	var okKM, okLM, okKS bool
	var ext []int64
	limitTest := ""
	closeCode := ""
	if af != nil {
		ast.Inspect(af.Body, func(n ast.Node) bool {
			switch x := n.(type) {
			case *ast.BinaryExpr:
				if x.Op == token.AND {
					if ix, ok := x.X.(*ast.IndexExpr); ok && p.src(ix) == "p[0]" {
						v, ok := p.evalInt(x.Y)
						if ok && v >= 128 {
							kindMask, okKM = v, true
						} else if ok {
							lenMask, okLM = v, true
						}
					}
				}
				if x.Op == token.SHR {
					kindShift, okKS = p.evalInt(x.Y)
				}
				if x.Op == token.LAND && limitTest == "" {
					limitTest = p.src(x)
				}
			case *ast.SwitchStmt:
				if x.Tag != nil && p.src(x.Tag) == "c.readRemaining" {
					for _, cc := range x.Body.List {
						cl := cc.(*ast.CaseClause)
						if len(cl.List) != 1 {
							continue
						}
						marker, ok1 := p.evalInt(cl.List[0])
						width := int64(-1)
						ast.Inspect(cl, func(m ast.Node) bool {
							if c, ok := m.(*ast.CallExpr); ok {
								if se, ok := c.Fun.(*ast.SelectorExpr); ok && se.Sel.Name == "read" && len(c.Args) == 1 {
									width, _ = p.evalInt(c.Args[0])
								}
							}
							return true
						})
						if ok1 {
							ext = append(ext, marker, width)
						}
					}
				}
			case *ast.CallExpr:
				if se, ok := x.Fun.(*ast.SelectorExpr); ok && se.Sel.Name == "CloseWithError" && len(x.Args) == 2 {
					closeCode = p.src(x.Args[0])
				}
			}
			return true
		})
	}
	f.nat("wt_adv_kindmask", kindMask, okKM)
	f.nat("wt_adv_lenmask", lenMask, okLM)
	f.nat("wt_adv_kindshift", kindShift, okKS)
	f.nats("wt_adv_ext", ext, af != nil)
	f.str("wt_adv_limit_test", limitTest, limitTest != "")
	f.str("wt_adv_close_code", closeCode, closeCode != "")

	// setReadRemaining rejects negative lengths
	srr := p.fn("Conn", "setReadRemaining")
	neg := ""
	if srr != nil {
		ast.Inspect(srr.Body, func(n ast.Node) bool {
			if is, ok := n.(*ast.IfStmt); ok && neg == "" {
				neg = p.src(is.Cond)
			}
			return true
		})
	}
	f.str("wt_setrem_guard", neg, neg != "")

	// NextReader's repeat guard
	nr := p.fn("Conn", "NextReader")
	var guard int64
	okG := false
	if nr != nil {
		ast.Inspect(nr.Body, func(n ast.Node) bool {
			if be, ok := n.(*ast.BinaryExpr); ok && be.Op == token.GEQ && p.src(be.X) == "c.readErrCount" {
				guard, okG = p.evalInt(be.Y)
			}
			return true
		})
	}
	f.nat("wt_next_guard", guard, okG)

	// panic-site census of the reader path and of the whole package
	f.strs("wt_panics", p.panicCensus(nil), true)
	f.strs("wt_reader_risky", p.riskyCensus(af, nr, p.fn("messageReader", "Read"), p.fn("Conn", "read"), srr), true)
	f.strs("wt_writer_risky", p.riskyCensus(ff, p.fn("messageWriter", "Write"), p.fn("messageWriter", "ncopy"),
		p.fn("messageWriter", "grow"), p.fn("messageWriter", "ReadFrom"), p.fn("Conn", "WriteMessage")), true)
}
