package main

import (
	"crypto/sha256"
	"encoding/hex"
	"encoding/json"
	"go/ast"
	"os"
	"path/filepath"
	"regexp"
	"sort"
	"strings"
)

func init() { moreFacts = append(moreFacts, factsFiles) }

// factsFiles: for every source file a property is anchored in (properties.jsonl, anchors.files), the digest of
// the statement skeleton of each of its functions and of its other declarations: `skel_file_<path>` =
// ["<recv>.<name>#<digest>", …, "decls#<digest>"]. The session/framing/container models were written from and
// validated against exactly this code; a function that reads differently is no longer the code the
// correspondence was run against, whatever the families happen to exercise.
func factsFiles(f *facts) {
	raw, err := os.ReadFile("/verif/properties.jsonl")
	if err != nil {
		return
	}
	seen := map[string]bool{}
	var paths []string
	for _, line := range strings.Split(string(raw), "\n") {
		if strings.TrimSpace(line) == "" {
			continue
		}
		var p struct {
			Anchors struct {
				Files []string `json:"files"`
			} `json:"anchors"`
		}
		if json.Unmarshal([]byte(line), &p) != nil {
			continue
		}
		for _, fl := range p.Anchors.Files {
			if strings.HasSuffix(fl, ".go") && !seen[fl] {
				seen[fl] = true
				paths = append(paths, fl)
			}
		}
	}
	sort.Strings(paths)
	pkgs := map[string]*pkg{}
	nonAlnum := regexp.MustCompile(`[^A-Za-z0-9]+`)
	for _, path := range paths {
		dir, base := filepath.Dir(path), filepath.Base(path)
		p := pkgs[dir]
		if p == nil {
			p = loadPkg(dir)
			pkgs[dir] = p
		}
		fact := "skel_file_" + nonAlnum.ReplaceAllString(strings.TrimSuffix(path, ".go"), "_")
		file := p.files[base]
		if file == nil {
			f.strs(fact, nil, false)
			continue
		}
		var out []string
		var decls []string
		for _, d := range file.Decls {
			switch x := d.(type) {
			case *ast.FuncDecl:
				recv := ""
				if x.Recv != nil && len(x.Recv.List) == 1 {
					recv = strings.TrimLeft(p.src(x.Recv.List[0].Type), "*")
					if i := strings.Index(recv, "["); i >= 0 {
						recv = recv[:i]
					}
				}
				sk := []string{p.src(x.Type)}
				if x.Body != nil {
					sk = append(sk, p.skeleton(x.Body)...)
				}
				out = append(out, recv+"."+x.Name.Name+"#"+digest(sk))
			case *ast.GenDecl:
				if x.Tok.String() == "import" {
					continue
				}
				decls = append(decls, strings.Join(strings.Fields(p.src(x)), " "))
			}
		}
		sort.Strings(out)
		out = append(out, "decls#"+digest(decls))
		f.strs(fact, out, true)
	}
}

func digest(lines []string) string {
	h := sha256.Sum256([]byte(strings.Join(lines, "\n")))
	return hex.EncodeToString(h[:8])
}
