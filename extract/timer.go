package main

import (
	"go/ast"
	"go/token"
	"strings"
)

func init() { moreFacts = append(moreFacts, factsTimer) }

// syncEvents lists, in source order, the operations of fd that touch what the
// timer's goroutines share: the runtime timer, mu, stopCh, stopped, go statements.
func syncEvents(p *pkg, body ast.Node) []string {
	var out []string
	ast.Inspect(body, func(n ast.Node) bool {
		switch x := n.(type) {
		case *ast.CallExpr:
			s := p.src(x)
			if strings.HasPrefix(s, "VerifYield") || strings.HasPrefix(s, "utils.VerifYield") {
				return false
			}
			for _, suf := range []string{".Lock()", ".Unlock()", ".timer.Stop()"} {
				if strings.HasSuffix(s, suf) {
					out = append(out, s)
				}
			}
			if strings.Contains(s, ".timer.Reset(") || strings.HasPrefix(s, "time.NewTimer(") || strings.HasPrefix(s, "close(") {
				out = append(out, s)
			}
		case *ast.SelectStmt:
			out = append(out, "select")
		case *ast.CommClause:
			if x.Comm == nil {
				out = append(out, "default:")
			}
		case *ast.SendStmt:
			out = append(out, p.src(x.Chan)+" <- "+p.src(x.Value))
		case *ast.UnaryExpr:
			if x.Op == token.ARROW {
				out = append(out, "<-"+p.src(x.X))
			}
		case *ast.GoStmt:
			out = append(out, "go "+p.src(x.Call))
			return false
		case *ast.DeferStmt:
			out = append(out, "defer "+p.src(x.Call))
			return false
		case *ast.AssignStmt:
			if len(x.Lhs) == 1 && strings.HasSuffix(p.src(x.Lhs[0]), ".stopped") {
				out = append(out, p.src(x))
			}
		case *ast.IfStmt:
			c := p.src(x.Cond)
			if strings.Contains(c, "stopped") || strings.Contains(c, ".timer.Stop()") || c == "active" {
				out = append(out, "if "+c)
			}
		case *ast.ReturnStmt:
			out = append(out, "return")
		}
		return true
	})
	return out
}

func factsTimer(f *facts) {
	p := loadPkg("utils")
	for _, fn := range []struct{ recv, name, fact string }{
		{"Timer", "Stop", "timer_stop_events"},
		{"Timer", "Refresh", "timer_refresh_events"},
		{"", "SetTimeout", "timer_settimeout_events"},
		{"", "SetInterval", "timer_setinterval_events"},
		{"", "ClearTimeout", "timer_cleartimeout_events"},
	} {
		fd := p.fn(fn.recv, fn.name)
		if fd == nil {
			f.strs(fn.fact, nil, false)
			continue
		}
		f.strs(fn.fact, syncEvents(p, fd.Body), true)
	}
}
