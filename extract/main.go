// Command extract reads /repo's current working tree with go/parser and
// regenerates the facts the Lean model is instantiated with: constants,
// tables and small structural censuses, each found by function and by the
// identifiers involved (never by line). A fact whose shape is not recognised
// is emitted as `none` ("unknown"): the obligations that need it then fail for
// this tree, every other property is unaffected.
package main

import (
	"bytes"
	"encoding/json"
	"fmt"
	"go/ast"
	"go/constant"
	"go/parser"
	"go/printer"
	"go/token"
	"os"
	"path/filepath"
	"sort"
	"strconv"
	"strings"
)

type pkg struct {
	fset   *token.FileSet
	files  map[string]*ast.File
	consts map[string]constant.Value
}

var repo = "/repo"

func loadPkg(dir string) *pkg {
	p := &pkg{fset: token.NewFileSet(), files: map[string]*ast.File{}, consts: map[string]constant.Value{}}
	ents, _ := os.ReadDir(filepath.Join(repo, dir))
	for _, e := range ents {
		n := e.Name()
		if !strings.HasSuffix(n, ".go") || strings.HasSuffix(n, "_test.go") {
			continue
		}
		src, err := os.ReadFile(filepath.Join(repo, dir, n))
		if err != nil {
			continue
		}
		if bytes.Contains(src, []byte("//go:build !verif")) {
			continue // checks build /repo with -tags verif
		}
		f, err := parser.ParseFile(p.fset, filepath.Join(dir, n), src, parser.SkipObjectResolution)
		if err != nil {
			fmt.Fprintln(os.Stderr, "extract: parse error:", err)
			continue
		}
		p.files[n] = f
	}
	// package-level constants (two passes for forward references)
	for pass := 0; pass < 3; pass++ {
		for _, f := range p.files {
			for _, d := range f.Decls {
				gd, ok := d.(*ast.GenDecl)
				if !ok || gd.Tok != token.CONST {
					continue
				}
				for _, s := range gd.Specs {
					vs := s.(*ast.ValueSpec)
					for i, name := range vs.Names {
						if i < len(vs.Values) {
							if v := p.eval(vs.Values[i]); v != nil {
								p.consts[name.Name] = v
							}
						}
					}
				}
			}
		}
	}
	return p
}

// eval evaluates constant expressions over literals and package constants.
func (p *pkg) eval(e ast.Expr) constant.Value {
	switch x := e.(type) {
	case *ast.BasicLit:
		return constant.MakeFromLiteral(x.Value, x.Kind, 0)
	case *ast.Ident:
		if v, ok := p.consts[x.Name]; ok {
			return v
		}
	case *ast.ParenExpr:
		return p.eval(x.X)
	case *ast.BinaryExpr:
		a, b := p.eval(x.X), p.eval(x.Y)
		if a == nil || b == nil {
			return nil
		}
		defer func() { recover() }()
		if x.Op == token.SHL || x.Op == token.SHR {
			s, _ := constant.Uint64Val(b)
			return constant.Shift(a, x.Op, uint(s))
		}
		if x.Op == token.QUO && a.Kind() == constant.Int && b.Kind() == constant.Int {
			return constant.BinaryOp(a, token.QUO_ASSIGN, b)
		}
		return constant.BinaryOp(a, x.Op, b)
	case *ast.SelectorExpr: // time.Millisecond etc.
		if id, ok := x.X.(*ast.Ident); ok && id.Name == "time" {
			switch x.Sel.Name {
			case "Nanosecond":
				return constant.MakeInt64(1)
			case "Microsecond":
				return constant.MakeInt64(1e3)
			case "Millisecond":
				return constant.MakeInt64(1e6)
			case "Second":
				return constant.MakeInt64(1e9)
			case "Minute":
				return constant.MakeInt64(60e9)
			}
		}
		if id, ok := x.X.(*ast.Ident); ok && id.Name == "http" {
			if v, ok := httpConsts[x.Sel.Name]; ok {
				return constant.MakeInt64(v)
			}
		}
	case *ast.CallExpr: // conversions such as int64(x), byte(x), time.Duration(x)
		if len(x.Args) == 1 {
			return p.eval(x.Args[0])
		}
	}
	return nil
}

var httpConsts = map[string]int64{"StatusBadRequest": 400, "StatusForbidden": 403, "StatusOK": 200,
	"StatusRequestEntityTooLarge": 413, "StatusTooManyRequests": 429, "StatusInternalServerError": 500,
	"StatusNotImplemented": 501, "StatusNoContent": 204}

func (p *pkg) evalInt(e ast.Expr) (int64, bool) {
	v := p.eval(e)
	if v == nil {
		return 0, false
	}
	if v.Kind() == constant.Float {
		v = constant.ToInt(v)
	}
	if v.Kind() != constant.Int {
		return 0, false
	}
	return constant.Int64Val(v)
}

// fn finds a function or method declaration: recv "" for plain functions.
func (p *pkg) fn(recv, name string) *ast.FuncDecl {
	for _, f := range p.files {
		for _, d := range f.Decls {
			fd, ok := d.(*ast.FuncDecl)
			if !ok || fd.Name.Name != name {
				continue
			}
			r := ""
			if fd.Recv != nil && len(fd.Recv.List) == 1 {
				t := fd.Recv.List[0].Type
				if s, ok := t.(*ast.StarExpr); ok {
					t = s.X
				}
				if ix, ok := t.(*ast.IndexExpr); ok {
					t = ix.X
				}
				if id, ok := t.(*ast.Ident); ok {
					r = id.Name
				}
			}
			if r == recv {
				return fd
			}
		}
	}
	return nil
}

func (p *pkg) src(n ast.Node) string {
	var b bytes.Buffer
	printer.Fprint(&b, p.fset, n)
	return strings.Join(strings.Fields(b.String()), " ")
}

// ---- output ------------------------------------------------------------

type facts struct {
	order []string
	lean  map[string]string // name -> Lean term of an Option type
	typ   map[string]string
	js    map[string]any
}

func newFacts() *facts {
	return &facts{lean: map[string]string{}, typ: map[string]string{}, js: map[string]any{}}
}

func (f *facts) nat(name string, v int64, ok bool) {
	f.order = append(f.order, name)
	f.typ[name] = "Option Nat"
	if ok && v >= 0 {
		f.lean[name] = fmt.Sprintf("some %d", v)
		f.js[name] = v
	} else {
		f.lean[name] = "none"
		f.js[name] = nil
		fmt.Fprintln(os.Stderr, "extract: shape changed, fact unknown:", name)
	}
}

func leanStr(s string) string {
	var b strings.Builder
	b.WriteByte('"')
	for _, r := range s {
		switch {
		case r == '"':
			b.WriteString("\\\"")
		case r == '\\':
			b.WriteString("\\\\")
		case r == '\n':
			b.WriteString("\\n")
		case r == '\t':
			b.WriteString("\\t")
		case r < 0x20 || r == 0x7f:
			b.WriteString(fmt.Sprintf("\\x%02x", r))
		default:
			b.WriteRune(r)
		}
	}
	b.WriteByte('"')
	return b.String()
}

func (f *facts) str(name string, v string, ok bool) {
	f.order = append(f.order, name)
	f.typ[name] = "Option String"
	if ok {
		f.lean[name] = "some " + leanStr(v)
		f.js[name] = v
	} else {
		f.lean[name] = "none"
		f.js[name] = nil
		fmt.Fprintln(os.Stderr, "extract: shape changed, fact unknown:", name)
	}
}

func (f *facts) strs(name string, v []string, ok bool) {
	f.order = append(f.order, name)
	f.typ[name] = "Option (List String)"
	if ok {
		q := make([]string, len(v))
		for i, s := range v {
			q[i] = leanStr(s)
		}
		f.lean[name] = "some [" + strings.Join(q, ", ") + "]"
		f.js[name] = v
	} else {
		f.lean[name] = "none"
		f.js[name] = nil
		fmt.Fprintln(os.Stderr, "extract: shape changed, fact unknown:", name)
	}
}

func (f *facts) nats(name string, v []int64, ok bool) {
	f.order = append(f.order, name)
	f.typ[name] = "Option (List Nat)"
	if ok {
		q := make([]string, len(v))
		for i, s := range v {
			q[i] = strconv.FormatInt(s, 10)
		}
		f.lean[name] = "some [" + strings.Join(q, ", ") + "]"
		f.js[name] = v
	} else {
		f.lean[name] = "none"
		f.js[name] = nil
		fmt.Fprintln(os.Stderr, "extract: shape changed, fact unknown:", name)
	}
}

func (f *facts) write(leanPath, jsonPath string) {
	var b strings.Builder
	b.WriteString("/- REGENERATED by /verif/extract from /repo's working tree on every run. Do not edit. -/\nnamespace EIO.Facts\n\n")
	for _, n := range f.order {
		fmt.Fprintf(&b, "def %s : %s := %s\n", n, f.typ[n], f.lean[n])
	}
	b.WriteString("\nend EIO.Facts\n")
	old, _ := os.ReadFile(leanPath)
	if string(old) != b.String() { // keep mtime when unchanged: no needless rebuild
		os.MkdirAll(filepath.Dir(leanPath), 0o755)
		if err := os.WriteFile(leanPath, []byte(b.String()), 0o644); err != nil {
			panic(err)
		}
	}
	js, _ := json.MarshalIndent(f.js, "", " ")
	os.MkdirAll(filepath.Dir(jsonPath), 0o755)
	os.WriteFile(jsonPath, js, 0o644)
}

// ---- generic censuses ----------------------------------------------------

// panicCensus lists "func: panic(<arg text>)" for every explicit panic call.
func (p *pkg) panicCensus(only func(fn string) bool) []string {
	var out []string
	for _, f := range p.files {
		for _, d := range f.Decls {
			fd, ok := d.(*ast.FuncDecl)
			if !ok || fd.Body == nil || (only != nil && !only(fd.Name.Name)) {
				continue
			}
			ast.Inspect(fd.Body, func(n ast.Node) bool {
				if c, ok := n.(*ast.CallExpr); ok {
					if id, ok := c.Fun.(*ast.Ident); ok && id.Name == "panic" {
						out = append(out, fd.Name.Name+": "+p.src(c))
					}
				}
				return true
			})
		}
	}
	sort.Strings(out)
	return out
}

// riskyCensus lists index/slice expressions and unchecked type assertions in
// the named functions (the operations that can panic on data).
func (p *pkg) riskyCensus(fns ...*ast.FuncDecl) []string {
	var out []string
	for _, fd := range fns {
		if fd == nil || fd.Body == nil {
			out = append(out, "<missing function>")
			continue
		}
		assigned2 := map[ast.Expr]bool{}
		ast.Inspect(fd.Body, func(n ast.Node) bool {
			if a, ok := n.(*ast.AssignStmt); ok && len(a.Lhs) == 2 && len(a.Rhs) == 1 {
				assigned2[a.Rhs[0]] = true
			}
			if vs, ok := n.(*ast.ValueSpec); ok && len(vs.Names) == 2 && len(vs.Values) == 1 {
				assigned2[vs.Values[0]] = true
			}
			return true
		})
		ast.Inspect(fd.Body, func(n ast.Node) bool {
			switch x := n.(type) {
			case *ast.IndexExpr:
				out = append(out, fd.Name.Name+": index "+p.src(x))
			case *ast.SliceExpr:
				out = append(out, fd.Name.Name+": slice "+p.src(x))
			case *ast.TypeAssertExpr:
				if x.Type != nil && !assigned2[x] {
					out = append(out, fd.Name.Name+": assert "+p.src(x))
				}
			}
			return true
		})
	}
	sort.Strings(out)
	return out
}

func main() {
	if len(os.Args) > 1 {
		repo = os.Args[1]
	}
	leanPath, jsonPath := "/verif/lean/EIO/Generated/Facts.lean", "/verif/build/facts.json"
	if len(os.Args) > 3 {
		leanPath, jsonPath = os.Args[2], os.Args[3]
	}
	f := newFacts()
	factsWT(f)
	for _, g := range moreFacts {
		g(f)
	}
	f.write(leanPath, jsonPath)
}

var moreFacts []func(*facts)
