// Package harness drives the real zishang520/engine.io code (built from /repo
// with -tags verif) and records, per scenario family, the operations it
// performed (ops.txt, one per line, the same lines the Lean driver consumes),
// what the implementation did (impl.txt, one line per op) and the verdicts of
// property monitors written from the property texts (report.json).
package harness

import (
	"context"
	"encoding/hex"
	"encoding/json"
	"fmt"
	"math/rand/v2"
	"os"
	"os/exec"
	"path/filepath"
	"sort"
	"strconv"
	"strings"
	"testing"
	"time"
)

type Violation struct {
	Property  string   `json:"property"`
	Signature string   `json:"signature"`
	What      string   `json:"what"`
	Replay    []string `json:"replay"`
}

type Rec struct {
	family     string
	seed       uint64
	tier       string
	rng        *rand.Rand
	ops, outs  []string
	violations []Violation
	cover      map[string]int
	samples    []string
	scenarios  int
	notes      []string
}

func newRec(family string) *Rec {
	seed, _ := strconv.ParseUint(os.Getenv("VERIF_SEED"), 10, 64)
	tier := os.Getenv("VERIF_TIER")
	if tier == "" {
		tier = "quick"
	}
	h := uint64(1469598103934665603)
	for _, c := range []byte(family) {
		h = (h ^ uint64(c)) * 1099511628211
	}
	return &Rec{family: family, seed: seed, tier: tier,
		rng: rand.New(rand.NewPCG(seed, h)), cover: map[string]int{}}
}

func (r *Rec) thorough() bool { return r.tier == "thorough" }

// Op records one operation line and the implementation's canonical answer.
func (r *Rec) Op(op, out string) {
	if strings.ContainsAny(op, "\n") || strings.ContainsAny(out, "\n") {
		panic("newline in op/out")
	}
	r.ops = append(r.ops, op)
	r.outs = append(r.outs, out)
}

func (r *Rec) Cover(key string) { r.cover[key]++ }

func (r *Rec) Violate(prop, sig, what string, replay []string) {
	for _, v := range r.violations {
		if v.Signature == sig && v.Property == prop {
			return // one witness per signature
		}
	}
	r.violations = append(r.violations, Violation{prop, sig, what, replay})
}

func (r *Rec) Sample(s string) {
	if len(r.samples) < 8 {
		if len(s) > 400 {
			s = s[:400] + "…"
		}
		r.samples = append(r.samples, s)
	}
}

func (r *Rec) Flush(t *testing.T) {
	out := os.Getenv("VERIF_OUT")
	if out == "" {
		t.Fatal("VERIF_OUT not set")
	}
	os.MkdirAll(out, 0o755)
	must := func(err error) {
		if err != nil {
			t.Fatal(err)
		}
	}
	nl := "\n"
	if len(r.ops) == 0 {
		nl = "" // a monitor-only family: nothing for the model to answer
	}
	must(os.WriteFile(filepath.Join(out, "ops.txt"), []byte(strings.Join(r.ops, "\n")+nl), 0o644))
	must(os.WriteFile(filepath.Join(out, "impl.txt"), []byte(strings.Join(r.outs, "\n")+nl), 0o644))
	keys := make([]string, 0, len(r.cover))
	for k := range r.cover {
		keys = append(keys, k)
	}
	sort.Strings(keys)
	rep := map[string]any{
		"family": r.family, "seed": r.seed, "tier": r.tier,
		"ops": len(r.ops), "scenarios": r.scenarios,
		"violations": r.violations, "cover": r.cover, "cover_keys": len(keys),
		"samples": r.samples, "notes": r.notes,
	}
	if r.violations == nil {
		rep["violations"] = []Violation{}
	}
	if r.samples == nil {
		n := len(r.ops)
		if n > 6 {
			n = 6
		}
		for i := 0; i < n; i++ {
			r.Sample(r.ops[i] + " => " + r.outs[i])
		}
		rep["samples"] = r.samples
	}
	b, _ := json.MarshalIndent(rep, "", " ")
	must(os.WriteFile(filepath.Join(out, "report.json"), b, 0o644))
}

func hx(b []byte) string {
	if len(b) == 0 {
		return "-"
	}
	return hex.EncodeToString(b)
}

func unhx(s string) []byte {
	if s == "-" {
		return nil
	}
	b, err := hex.DecodeString(s)
	if err != nil {
		panic(err)
	}
	return b
}

func ints(xs []int) string {
	if len(xs) == 0 {
		return "-"
	}
	ss := make([]string, len(xs))
	for i, x := range xs {
		ss[i] = strconv.Itoa(x)
	}
	return strings.Join(ss, ",")
}

func atoi(s string) int {
	n, err := strconv.Atoi(s)
	if err != nil {
		panic(err)
	}
	return n
}

func unints(s string) []int {
	if s == "-" {
		return nil
	}
	var xs []int
	for _, f := range strings.Split(s, ",") {
		xs = append(xs, atoi(f))
	}
	return xs
}

func b01(b bool) string {
	if b {
		return "1"
	}
	return "0"
}

// payload makes n deterministic but position-dependent bytes.
func payload(rng *rand.Rand, n int) []byte {
	b := make([]byte, n)
	x := rng.Uint64() | 1
	for i := range b {
		x ^= x << 13
		x ^= x >> 7
		x ^= x << 17
		b[i] = byte(x)
	}
	return b
}

// chunking splits n into sizes by a named strategy.
func chunking(rng *rand.Rand, n int, how string) []int {
	switch how {
	case "whole":
		return []int{n}
	case "one":
		if n > 300 {
			how = "random"
			break
		}
		xs := make([]int, n)
		for i := range xs {
			xs[i] = 1
		}
		return xs
	}
	var xs []int
	for n > 0 {
		k := 1 + rng.IntN(n)
		if rng.IntN(3) == 0 && n > 8 {
			k = 1 + rng.IntN(8)
		}
		xs = append(xs, k)
		n -= k
	}
	if rng.IntN(4) == 0 {
		xs = append(xs, 0) // an empty write
	}
	return xs
}

func sigf(format string, a ...any) string { return fmt.Sprintf(format, a...) }

// TestFamily is the single entry point: VERIF_FAMILY selects the scenario family.
func TestFamily(t *testing.T) {
	fam := os.Getenv("VERIF_FAMILY")
	f, ok := families[fam]
	if !ok {
		t.Fatalf("unknown VERIF_FAMILY %q", fam)
	}
	r := newRec(fam)
	f(t, r)
	r.Flush(t)
}

var families = map[string]func(*testing.T, *Rec){"exec": famExec}

// interpreters by first token of an op line
var interpreters = map[string]func() interface{ Exec(string) string }{}

// famExec replays an op file (VERIF_OPS) on the implementation. Scenario
// families (a `cfg` line starts a scenario that runs in one bubble) go through
// their scenario runner; answers are appended to VERIF_OUT/live.txt as they are
// produced so that a crash leaves the answers so far behind.
func famExec(t *testing.T, r *Rec) {
	b, err := os.ReadFile(os.Getenv("VERIF_OPS"))
	if err != nil {
		t.Fatal(err)
	}
	os.MkdirAll(os.Getenv("VERIF_OUT"), 0o755)
	live, _ := os.OpenFile(filepath.Join(os.Getenv("VERIF_OUT"), "live.txt"), os.O_CREATE|os.O_WRONLY|os.O_TRUNC, 0o644)
	defer live.Close()
	liveSink = func(out string) { fmt.Fprintln(live, out); live.Sync() }
	defer func() { liveSink = nil }()
	lines := strings.Split(strings.TrimSpace(string(b)), "\n")
	interp := map[string]interface{ Exec(string) string }{}
	for i := 0; i < len(lines); {
		f := strings.Fields(lines[i])
		if len(f) == 0 {
			i++
			continue
		}
		fam := strings.TrimSuffix(f[0], "+")
		if run, ok := scenarioRunners[fam]; ok {
			j := i + 1
			for j < len(lines) {
				g := strings.Fields(lines[j])
				if len(g) > 1 && strings.TrimSuffix(g[0], "+") == fam && g[1] != "cfg" {
					j++
				} else {
					break
				}
			}
			outs := run(t, lines[i:j])
			for k, o := range outs {
				r.Op(lines[i+k], o)
			}
			i = j
			continue
		}
		it, ok := interp[f[0]]
		if !ok {
			mk, ok2 := interpreters[f[0]]
			if !ok2 {
				r.Op(lines[i], "bad-op")
				liveSink("bad-op")
				i++
				continue
			}
			it = mk()
			interp[f[0]] = it
		}
		o := it.Exec(lines[i])
		liveSink(o)
		r.Op(lines[i], o)
		i++
	}
}

// liveSink, when set, receives every scenario answer as soon as it exists.
var liveSink func(string)

// runIsolated runs one scenario in a child process under a wall-clock limit:
// a Go panic in a library goroutine or a hang (a goroutine blocked on a mutex is
// not a durable block for synctest) must not take the checker down. Answers the
// child produced before dying are kept; the op it died in answers "fault:<what>".
func runIsolated(lines []string, limit time.Duration) (outs []string, fault string) {
	dir, err := os.MkdirTemp("", "verif-iso")
	if err != nil {
		panic(err)
	}
	defer os.RemoveAll(dir)
	opsFile := filepath.Join(dir, "ops.txt")
	os.WriteFile(opsFile, []byte(strings.Join(lines, "\n")+"\n"), 0o644)
	ctx, cancel := context.WithTimeout(context.Background(), limit)
	defer cancel()
	cmd := exec.CommandContext(ctx, os.Args[0], "-test.run", "TestFamily")
	cmd.Env = append(os.Environ(), "VERIF_FAMILY=exec", "VERIF_OPS="+opsFile, "VERIF_OUT="+dir, "GOMAXPROCS=1")
	var stderr strings.Builder
	cmd.Stderr = &stderr
	cmd.Stdout = &stderr
	runErr := cmd.Run()
	if b, err := os.ReadFile(filepath.Join(dir, "live.txt")); err == nil && len(b) > 0 {
		outs = strings.Split(strings.TrimRight(string(b), "\n"), "\n")
	}
	switch {
	case ctx.Err() != nil:
		fault = "hang"
	case runErr != nil:
		fault = "panic"
		for _, l := range strings.Split(stderr.String(), "\n") {
			if strings.HasPrefix(l, "panic:") || strings.HasPrefix(l, "fatal error:") {
				fault = "panic:" + strings.ReplaceAll(strings.TrimSpace(l), " ", "_")
				if len(fault) > 120 {
					fault = fault[:120]
				}
				break
			}
		}
	}
	if fault != "" {
		outs = append(outs, "fault:"+fault)
	}
	for len(outs) < len(lines) {
		outs = append(outs, "-")
	}
	return outs[:len(lines)], fault
}

func jsonUnmarshal(b []byte, v any) error { return json.Unmarshal(b, v) }
func sortStrings(xs []string)            { sort.Strings(xs) }

func appendLive(outs []string, o string) []string {
	if liveSink != nil {
		liveSink(o)
	}
	return append(outs, o)
}
