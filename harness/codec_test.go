package harness

import (
	"bytes"
	"compress/gzip"
	"compress/zlib"
	"fmt"
	"io"

	"github.com/andybalholm/brotli"
	"github.com/klauspost/compress/zstd"
)

// decodeBody undoes a Content-Encoding as HTTP defines it: "deflate" is the
// zlib format (RFC 1950), not a raw DEFLATE stream.
func decodeBody(coding string, b []byte) ([]byte, error) {
	switch coding {
	case "gzip":
		zr, err := gzip.NewReader(bytes.NewReader(b))
		if err != nil {
			return nil, err
		}
		return io.ReadAll(zr)
	case "deflate":
		zr, err := zlib.NewReader(bytes.NewReader(b))
		if err != nil {
			return nil, err
		}
		return io.ReadAll(zr)
	case "br":
		return io.ReadAll(brotli.NewReader(bytes.NewReader(b)))
	case "zstd":
		zr, err := zstd.NewReader(bytes.NewReader(b))
		if err != nil {
			return nil, err
		}
		defer zr.Close()
		return io.ReadAll(zr)
	}
	return nil, fmt.Errorf("unknown coding %q", coding)
}
