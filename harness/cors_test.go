package harness

import (
	"context"
	"fmt"
	"net/http"
	"net/http/httptest"
	"regexp"
	"sort"
	"strings"
	"testing"
	"testing/synctest"

	"github.com/zishang520/engine.io/v2/config"
	"github.com/zishang520/engine.io/v2/types"
)

func init() {
	families["cors"] = famCors
	interpreters["cors"] = func() interface{ Exec(string) string } { return &corsInterp{} }
}

// corsInterp runs types.MiddlewareWrapper(policy) on one request at a time.
type corsInterp struct {
	opts *types.Cors
	res  []*regexp.Regexp
}

func strOrListTok(tok string) any {
	switch {
	case tok == "-":
		return nil
	case strings.HasPrefix(tok, "s:"):
		return string(unhx(tok[2:]))
	case strings.HasPrefix(tok, "l:"):
		var l []string
		for _, x := range strings.Split(tok[2:], ";") {
			if x != "" {
				l = append(l, string(unhx(x)))
			}
		}
		return l
	}
	return nil
}

func (it *corsInterp) Exec(line string) string {
	f := strings.Fields(line)
	switch f[1] {
	case "cfg": // cors cfg <origin> <methods> <allowed> <exposed> <maxAge> <cred> <pfc> <status>
		o := &types.Cors{Credentials: f[7] == "1", PreflightContinue: f[8] == "1", OptionsSuccessStatus: atoi(f[9])}
		it.res = nil
		switch {
		case f[2] == "nil":
			o.Origin = nil
		case f[2] == "star":
			o.Origin = "*"
		case strings.HasPrefix(f[2], "s:"):
			o.Origin = string(unhx(f[2][2:]))
		case strings.HasPrefix(f[2], "t:"):
			var l []any
			for _, x := range strings.Split(f[2][2:], ";") {
				switch {
				case x == "":
				case x[0] == 's':
					l = append(l, string(unhx(x[1:])))
				case x[0] == 'r':
					re := regexp.MustCompile(string(unhx(x[1:])))
					it.res = append(it.res, re)
					l = append(l, re)
				case x == "b1":
					l = append(l, true)
				case x == "b0":
					l = append(l, false)
				}
			}
			// a policy of one element is given bare (regexp or bool), longer ones as a list
			if len(l) == 1 {
				if _, isStr := l[0].(string); !isStr {
					o.Origin = l[0]
					break
				}
			}
			o.Origin = l
		}
		if v := strOrListTok(f[3]); v != nil {
			o.Methods = v
		}
		if v := strOrListTok(f[4]); v != nil {
			o.AllowedHeaders = v
		}
		if v := strOrListTok(f[5]); v != nil {
			o.ExposedHeaders = v
		}
		if f[6] != "-" {
			o.MaxAge = string(unhx(f[6]))
		}
		it.opts = o
		return "ok"
	case "req": // cors req <METHOD> <origin hex|-> <acrh hex|-> <rematch bits>
		ctx, cancel := context.WithCancel(context.Background())
		defer cancel()
		req := httptest.NewRequest(f[2], "/engine.io/", nil).WithContext(ctx)
		if f[3] != "-" {
			req.Header.Set("Origin", string(unhx(f[3])))
		}
		if f[4] != "-" {
			req.Header.Set("Access-Control-Request-Headers", string(unhx(f[4])))
		}
		rec := httptest.NewRecorder()
		hc := types.NewHttpContext(rec, req)
		next := 0
		types.MiddlewareWrapper(it.opts)(hc, func(error) { next++ })
		status := "-"
		if hc.IsDone() {
			status = fmt.Sprint(rec.Code)
		}
		var keys []string
		all := hc.ResponseHeaders.All()
		for k := range all {
			if k != "Vary" {
				keys = append(keys, k)
			}
		}
		sort.Strings(keys)
		var hs []string
		for _, k := range keys {
			hs = append(hs, fmt.Sprintf("%s=%s", k, hx([]byte(all[k][0]))))
		}
		vary := "-"
		if v := hc.ResponseHeaders.Peek("Vary"); v != "" {
			vs := strings.Split(v, ", ")
			sort.Strings(vs)
			vary = strings.Join(vs, ",")
		}
		return fmt.Sprintf("next=%d status=%s %s vary=%s", next, status, strings.Join(hs, " "), vary)
	}
	return "bad-op"
}

// famCors: every policy shape against allowed, refused and absent origins, preflights and actual requests (C17).
func famCors(t *testing.T, r *Rec) {
	hexs := func(s string) string { return hx([]byte(s)) }
	type pol struct {
		tok     string
		allows  func(origin string) bool
		depends bool // does the Allow-Origin value depend on the request
		patterns []string
	}
	re1 := `^https://.*\.example\.com$`
	pols := []pol{
		{"star", func(string) bool { return true }, false, nil},
		{"nil", func(string) bool { return true }, false, nil},
		{"s:" + hexs("https://fixed.example"), nil, true, nil},
		{"t:s" + hexs("https://a.example") + ";s" + hexs("https://b.example"), func(o string) bool { return o == "https://a.example" || o == "https://b.example" }, true, nil},
		{"t:r" + hexs(re1), func(o string) bool { return regexp.MustCompile(re1).MatchString(o) }, true, []string{re1}},
		{"t:b1", func(string) bool { return true }, true, nil},
		{"t:b0", func(string) bool { return false }, true, nil},
		{"t:s" + hexs("https://a.example") + ";r" + hexs(re1) + ";b0", func(o string) bool { return o == "https://a.example" || regexp.MustCompile(re1).MatchString(o) }, true, []string{re1}},
	}
	origins := []string{"-", "https://a.example", "https://b.example", "https://x.example.com", "https://evil.example", "https://fixed.example", "null"}
	for _, p := range pols {
		for _, cred := range []string{"0", "1"} {
			for vi, variant := range []string{"- - - -", "s:" + hexs("GET,POST") + " s:" + hexs("X-A") + " l:" + hexs("X-E1") + ";" + hexs("X-E2") + " " + hexs("600"),
				"l:" + hexs("GET") + ";" + hexs("PUT") + " l:" + hexs("X-A") + ";" + hexs("X-B") + " s:" + hexs("X-E") + " -"} {
				for _, pfc := range []string{"0", "1"} {
					status := []int{0, 200, 204}[(vi+len(p.tok))%3]
					it := &corsInterp{}
					do := func(l string) string { o := it.Exec(l); r.Op(l, o); return o }
					cfgLine := fmt.Sprintf("cors cfg %s %s %s %s %s", p.tok, variant, cred, pfc, fmt.Sprint(status))
					do(cfgLine)
					r.scenarios++
					for _, method := range []string{"GET", "POST", "OPTIONS"} {
						for _, og := range origins {
							acrh := "-"
							if method == "OPTIONS" && len(og)%2 == 0 {
								acrh = hexs("x-custom, content-type")
							}
							bits := ""
							ogv := ""
							if og != "-" {
								ogv = og
							}
							for _, pat := range p.patterns {
								if regexp.MustCompile(pat).MatchString(ogv) {
									bits += "1"
								} else {
									bits += "0"
								}
							}
							if bits == "" {
								bits = "-"
							}
							ogTok := "-"
							if og != "-" {
								ogTok = hexs(og)
							}
							line := fmt.Sprintf("cors req %s %s %s %s", method, ogTok, acrh, bits)
							out := do(line)
							replay := []string{cfgLine, line}
							r.Cover(fmt.Sprintf("cors/%s/%s/cred=%s/pfc=%s/origin=%s", strings.SplitN(p.tok, ":", 2)[0], method, cred, pfc, b01(og != "-")))
							// --- the property, from the output alone
							hdr := map[string]string{}
							var next, st, vary string
							for _, tok := range strings.Fields(out) {
								kv := strings.SplitN(tok, "=", 2)
								switch kv[0] {
								case "next":
									next = kv[1]
								case "status":
									st = kv[1]
								case "vary":
									vary = kv[1]
								default:
									hdr[kv[0]] = string(unhx(kv[1]))
								}
							}
							acao := hdr["Access-Control-Allow-Origin"]
							if p.allows != nil && acao != "*" && acao != "false" {
								if acao != ogv || !p.allows(ogv) {
									r.Violate("C17", "C17/cors/allow-origin-names-refused-origin", fmt.Sprintf("Access-Control-Allow-Origin %q for request origin %q under policy %s", acao, ogv, p.tok), replay)
								}
							}
							if p.allows != nil && p.depends && p.allows(ogv) && acao != ogv {
								r.Violate("C17", "C17/cors/allowed-origin-not-named", fmt.Sprintf("Access-Control-Allow-Origin %q for allowed origin %q", acao, ogv), replay)
							}
							if p.depends && !strings.Contains(","+vary+",", ",Origin,") {
								r.Violate("C17", "C17/cors/vary-origin-missing", fmt.Sprintf("policy %s, origin %q: Vary is %q", p.tok, ogv, vary), replay)
							}
							if _, has := hdr["Access-Control-Allow-Credentials"]; has != (cred == "1") {
								r.Violate("C17", "C17/cors/credentials", fmt.Sprintf("credentials header present=%v, configured=%s", has, cred), replay)
							}
							wantStatus := fmt.Sprint(status)
							if status == 0 {
								wantStatus = "204"
							}
							switch {
							case method == "OPTIONS" && pfc == "0" && (next != "0" || st != wantStatus):
								r.Violate("C17", "C17/cors/preflight-not-answered", fmt.Sprintf("preflight: next=%s status=%s, want answered with %s", next, st, wantStatus), replay)
							case (method != "OPTIONS" || pfc == "1") && (next != "1" || st != "-"):
								r.Violate("C17", "C17/cors/request-not-passed-on", fmt.Sprintf("%s (preflightContinue=%s): next=%s status=%s", method, pfc, next, st), replay)
							}
						}
					}
				}
			}
		}
	}
	// through the engine: a preflight creates no session and is answered by the server
	for _, pfc := range []bool{false} {
		opts := &config.ServerOptions{}
		opts.SetCors(&types.Cors{Origin: []any{"https://a.example"}, Credentials: true, PreflightContinue: pfc})
		bubble(t, func(t *testing.T) {
			w := newWorld(t, opts, nil)
			defer w.teardown()
			hd := http.Header{"Origin": {"https://a.example"}, "Access-Control-Request-Method": {"POST"}}
			h := w.request("OPTIONS", "/engine.io/?EIO=4&transport=polling", hd, nil, false, false)
			synctest.Wait()
			r.scenarios++
			r.Cover("cors/engine/preflight")
			if n := len(w.srv.Clients().Keys()); n != 0 || h.rec.Code != 204 || h.rec.Header().Get("Access-Control-Allow-Origin") != "https://a.example" {
				r.Violate("C17", "C17/cors/engine-preflight", fmt.Sprintf("preflight through the engine: status %d, %d sessions, allow-origin %q", h.rec.Code, n, h.rec.Header().Get("Access-Control-Allow-Origin")), []string{"(engine) OPTIONS /engine.io/?EIO=4&transport=polling Origin: https://a.example"})
			}
			h2 := w.request("GET", "/engine.io/?EIO=4&transport=polling", http.Header{"Origin": {"https://evil.example"}}, nil, false, false)
			synctest.Wait()
			if h2.rec.Header().Get("Access-Control-Allow-Origin") == "https://evil.example" || !strings.Contains(h2.rec.Header().Get("Vary"), "Origin") {
				r.Violate("C17", "C17/cors/engine-handshake", fmt.Sprintf("handshake from a refused origin: allow-origin %q vary %q", h2.rec.Header().Get("Access-Control-Allow-Origin"), h2.rec.Header().Get("Vary")), []string{"(engine) GET handshake Origin: https://evil.example"})
			}
		})
	}
}
