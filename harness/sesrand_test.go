package harness

import (
	"bytes"
	"fmt"
	"strings"
	"testing"
)

func init() {
	families["ses-rand"] = famSesRand
}

type gSess struct {
	ord       int
	transport string
	proto     int
	b64       bool
	conn      int // ws connection ordinal, -1
	poll      int // pending poll request, -1
	hsReq     int // handshake request ordinal (polling), -1
	// what the generator did to it
	closeCause  bool
	overlap     bool
	pollPending bool
	buffered    int
	polledAtEnd bool
	lingering   bool // a graceful close was requested: the generator keeps poking the session
	closeReq    bool
	closeReqAt  int            // elapsed virtual ms at the first close request
	sent        []rmsg         // Send calls made while the session was observed open
	posted      []rmsg         // well-formed messages submitted while open
	reqs        map[int]string // request ordinal -> "poll" | "post" | "hs"
}

type sesGen struct {
	r          *Rec
	lines      []string
	sess       []*gSess
	nreq       int
	nconn      int
	I, T       int
	now        int
	eio3       bool
	initial    bool
	silenceEnd bool // the scenario ended with a silence longer than every bound
	rt         bool // real-time scenario (QUIC loopback): WebTransport sessions, no waiting for timers
}

func (g *sesGen) add(l ...string) { g.lines = append(g.lines, l...) }

func randMsg(r *Rec) rmsg {
	kind := []string{"t", "t", "b"}[r.rng.IntN(3)]
	n := []int{0, 1, 2, 5, 20, 40}[r.rng.IntN(6)]
	if r.rng.IntN(40) == 0 {
		n = 300 + r.rng.IntN(2000)
	}
	d := payload(r.rng, n)
	if kind == "t" { // valid UTF-8 without the v4 separator
		var b []byte
		for _, x := range d {
			switch {
			case x%17 == 0:
				b = append(b, []byte("é")...)
			case x%29 == 0:
				b = append(b, []byte("😀")...)
			default:
				b = append(b, 'a'+x%26)
			}
		}
		d = b
		if len(d) > n+8 {
			d = d[:n]
			for len(d) > 0 && !validUTF8(d) {
				d = d[:len(d)-1]
			}
		}
	}
	return rmsg{kind, d}
}

func validUTF8(b []byte) bool {
	return bytes.ToValidUTF8(b, []byte("?")) != nil && string(bytes.ToValidUTF8(b, []byte{0})) == string(b)
}

func famSesRand(t *testing.T, r *Rec) {
	n := 40
	if r.thorough() {
		n = 400
	}
	for s := 0; s < n; s++ {
		g := &sesGen{r: r, I: 5000 + 100*r.rng.IntN(3), T: 200, eio3: r.rng.IntN(3) == 0}
		g.add(fmt.Sprintf("ses cfg %d %d 1000 100000 default 1 %s - 0 -", g.I, g.T, b01(g.eio3)))
		nops := 14 + r.rng.IntN(10)
		for k := 0; k < nops; k++ {
			g.step()
		}
		// one scenario in three ends with a long silence instead: every session must be closed by then
		longSilence := r.rng.IntN(3) == 0
		if longSilence {
			g.add(fmt.Sprintf("ses adv %d", 30000+g.I+g.T+100))
			g.now += 30000 + g.I + g.T + 100
			g.silenceEnd = true
			for _, ss := range g.sess {
				ss.closeCause = true
			}
		}
		// drain: let every live polling session poll once more, then a final look
		for _, ss := range g.sess {
			if ss.transport == "polling" && !ss.closeCause {
				if !ss.pollPending {
					ss.reqs[g.nreq] = "poll"
					ss.poll = g.nreq
					g.nreq++
					g.add(fmt.Sprintf("ses poll s%d", ss.ord))
				}
				ss.polledAtEnd = true
			}
		}
		g.add("ses obs")
		outs := sesRun(t, g.lines)
		r.scenarios++
		for i, l := range g.lines {
			r.Op(l, outs[i])
		}
		monitorSession(r, g, outs)
		if len(r.samples) < 3 {
			r.Sample(strings.Join(g.lines[:min(8, len(g.lines))], " ; "))
		}
	}
}

func (g *sesGen) live() []*gSess {
	var out []*gSess
	for _, s := range g.sess {
		if !s.closeCause {
			out = append(out, s)
		}
	}
	return out
}

func (g *sesGen) encode(ss *gSess, pk []epkt) []byte {
	if ss.proto == 4 {
		return encodeV4Payload(pk)
	}
	return encodeV3StringPayload(pk)
}

func (g *sesGen) step() {
	r := g.r
	live := g.live()
	pick := func() *gSess { return live[r.rng.IntN(len(live))] }
	c := r.rng.IntN(20)
	var ling []*gSess
	for _, s := range g.sess {
		if s.lingering {
			ling = append(ling, s)
		}
	}
	if len(ling) > 0 && r.rng.IntN(3) == 0 {
		// a session whose graceful close is under way: the client and the application keep going
		ss := ling[r.rng.IntN(len(ling))]
		switch r.rng.IntN(5) {
		case 0, 1: // the client reads
			if ss.transport == "polling" {
				ss.reqs[g.nreq] = "poll"
				ss.poll = g.nreq
				g.nreq++
				g.add(fmt.Sprintf("ses poll s%d", ss.ord))
			} else {
				g.add("ses obs")
			}
		case 2: // the client writes a message that must not be delivered any more
			late := []epkt{{'4', "t", []byte("late")}}
			if ss.transport == "polling" {
				ss.reqs[g.nreq] = "post"
				g.nreq++
				g.add(fmt.Sprintf("ses post s%d t 1 %s", ss.ord, hx(g.encode(ss, late))))
			} else {
				g.add(fmt.Sprintf("ses frame %d t %s", ss.conn, hx([]byte("4late"))))
			}
		case 3: // the application sends (discarded)
			g.add(fmt.Sprintf("ses send s%d t %s 1 0 -", ss.ord, hx([]byte("after-close"))))
		default:
			d := []int{1, 50, g.T + 1}[r.rng.IntN(3)]
			if g.rt {
				d = 1 + r.rng.IntN(20)
			}
			g.add(fmt.Sprintf("ses adv %d", d))
			g.now += d
		}
		return
	}
	switch {
	case len(g.sess) == 0 || (c == 0 && len(g.sess) < 3):
		proto := 4
		if g.eio3 && r.rng.IntN(2) == 0 {
			proto = 3
		}
		b64 := r.rng.IntN(4) == 0
		if g.rt && r.rng.IntN(2) == 0 {
			ss := &gSess{ord: len(g.sess), transport: "webtransport", proto: 4, b64: false, conn: g.nconn, poll: -1, hsReq: -1, reqs: map[int]string{}}
			g.nconn++
			g.sess = append(g.sess, ss)
			g.add("ses hs webtransport 4 0 -")
		} else if r.rng.IntN(3) == 0 {
			ss := &gSess{ord: len(g.sess), transport: "websocket", proto: proto, b64: b64, conn: g.nconn, poll: -1, hsReq: -1, reqs: map[int]string{}}
			g.nconn++
			g.sess = append(g.sess, ss)
			g.add(fmt.Sprintf("ses hs websocket %d %s -", proto, b01(b64)))
		} else {
			ss := &gSess{ord: len(g.sess), transport: "polling", proto: proto, b64: b64, conn: -1, poll: -1, hsReq: g.nreq, reqs: map[int]string{g.nreq: "hs"}}
			if g.initial {
				ss.sent = append(ss.sent, rmsg{"t", []byte("hi")})
			}
			g.nreq++
			g.sess = append(g.sess, ss)
			g.add(fmt.Sprintf("ses hs polling %d %s -", proto, b01(b64)))
		}
	case len(live) == 0:
		g.add("ses adv 1")
		g.now++
	case c <= 6: // application sends
		ss := pick()
		m := randMsg(r)
		ss.sent = append(ss.sent, m)
		if ss.pollPending {
			ss.pollPending = false
		} else {
			ss.buffered++
		}
		g.add(fmt.Sprintf("ses send s%d %s %s %s %s -", ss.ord, m.kind, hx(m.data), b01(r.rng.IntN(2) == 0), b01(r.rng.IntN(3) == 0)))
	case c <= 10: // client reads
		ss := pick()
		if ss.transport == "polling" {
			if ss.pollPending && r.rng.IntN(8) != 0 {
				g.add("ses adv 1")
				g.now++
				return
			}
			if ss.pollPending {
				ss.closeCause = true // overlapping poll: the server must answer 400 and close the session
				ss.overlap = true
			}
			ss.reqs[g.nreq] = "poll"
			ss.poll = g.nreq
			g.nreq++
			if ss.buffered > 0 {
				ss.buffered = 0
			} else {
				ss.pollPending = true
			}
			g.add(fmt.Sprintf("ses poll s%d", ss.ord))
		} else {
			g.add("ses obs")
		}
	case c <= 14: // client writes
		ss := pick()
		var pk []epkt
		np := 1 + r.rng.IntN(3)
		for i := 0; i < np; i++ {
			switch r.rng.IntN(12) {
			case 0:
				pk = append(pk, epkt{'6', "t", nil})
			case 1:
				if ss.proto == 4 {
					pk = append(pk, epkt{'3', "t", nil}) // pong (v4 direction)
				} else {
					pk = append(pk, epkt{'2', "t", nil}) // ping (v3 direction)
				}
			case 2:
				if r.rng.IntN(3) == 0 {
					pk = append(pk, epkt{'1', "t", nil}) // close packet
				}
			default:
				m := randMsg(r)
				if len(m.data) > 200 {
					m.data = m.data[:100]
					for !validUTF8(m.data) {
						m.data = m.data[:len(m.data)-1]
					}
				}
				pk = append(pk, epkt{'4', m.kind, m.data})
			}
		}
		if len(pk) == 0 {
			pk = []epkt{{'6', "t", nil}}
		}
		closed := false
		for _, p := range pk {
			if p.typ == '1' && ss.transport == "polling" {
				// on a polling payload a close packet ends the session and hides what follows it;
				// as a websocket frame it is not a close cause (the peer closes the connection instead)
				closed = true
				ss.closeCause = true
			}
			if p.typ == '4' && !closed {
				ss.posted = append(ss.posted, rmsg{p.kind, p.data})
			}
		}
		if ss.transport == "polling" {
			ss.reqs[g.nreq] = "post"
			g.nreq++
			// one data request in four is sent without a declared length (a chunked upload: ContentLength -1)
			g.add(fmt.Sprintf("ses post s%d t %d %s", ss.ord, btoi(g.r.rng.IntN(4) != 0), hx(g.encode(ss, pk))))
		} else {
			// one frame per packet
			for _, p := range pk {
				if p.kind == "b" && !ss.b64 {
					if ss.proto == 4 {
						g.add(fmt.Sprintf("ses frame %d b %s", ss.conn, hx(p.data)))
					} else {
						g.add(fmt.Sprintf("ses frame %d b %s", ss.conn, hx(append([]byte{p.typ - '0'}, p.data...))))
					}
				} else if p.kind == "b" {
					if ss.proto == 4 {
						g.add(fmt.Sprintf("ses frame %d t %s", ss.conn, hx(encodeV4Payload([]epkt{p}))))
					} else {
						enc := encodeV3StringPayload([]epkt{p})
						g.add(fmt.Sprintf("ses frame %d t %s", ss.conn, hx(enc[bytes.IndexByte(enc, ':')+1:])))
					}
				} else {
					g.add(fmt.Sprintf("ses frame %d t %s", ss.conn, hx(append([]byte{p.typ}, p.data...))))
				}
			}
		}
	case c == 15:
		ss := pick()
		ss.closeCause = true
		discard := r.rng.IntN(2) == 0
		ss.lingering = !discard
		if !ss.closeReq {
			ss.closeReq, ss.closeReqAt = true, g.now
		}
		g.add(fmt.Sprintf("ses close s%d %s", ss.ord, b01(discard)))
	case c == 16 && r.rng.IntN(3) == 0:
		for _, ss := range g.sess {
			ss.closeCause = true
			if !ss.closeReq {
				ss.closeReq, ss.closeReqAt = true, g.now
			}
		}
		g.add("ses shutdown")
	case c == 17 && r.rng.IntN(2) == 0:
		ss := pick()
		if ss.transport == "websocket" || ss.transport == "webtransport" {
			ss.closeCause = true
			if codes := []int{0, 1000, 1001, 1008, 1011, 3000, 4000}; ss.transport == "websocket" && !g.rt {
				// … or says goodbye with a close frame carrying some status code
				if code := codes[r.rng.IntN(len(codes))]; code != 0 {
					g.add(fmt.Sprintf("ses drop %d %d", ss.conn, code))
					break
				}
			}
			g.add(fmt.Sprintf("ses drop %d", ss.conn))
		} else if ss.pollPending {
			ss.closeCause = true
			g.add(fmt.Sprintf("ses abort %d", ss.poll))
		} else {
			g.add("ses obs")
		}
	default:
		d := []int{1, 5, 20, 50}[r.rng.IntN(4)]
		if g.rt {
			d = 1 + r.rng.IntN(10)
		}
		g.add(fmt.Sprintf("ses adv %d", d))
		g.now += d
	}
}

var rsRank = map[string]int{"opening": 0, "open": 1, "closing": 2, "closed": 3}

var docReasons = map[string]bool{"transport_close": true, "transport_error": true, "ping_timeout": true, "parse_error": true, "forced_close": true}

// monitorSession evaluates the property texts of C01 C02 C03 C04 C11 C12 C18 on one run.
func monitorSession(r *Rec, g *sesGen, outs []string) {
	type sview struct {
		closes      int
		closedAt    int // op index of the close event
		lastState   string
		received    []rmsg // what a conformant client has decoded so far
		delivered   []rmsg // message events
		cbSeen      map[int]bool
		lastCb      int
		flushes     int
		sentAcc     int // number of sends made while the session was observed open
		openAtSend  []bool
		violated    bool
		undecodable string
	}
	views := map[int]*sview{}
	view := func(k int) *sview {
		if views[k] == nil {
			views[k] = &sview{closedAt: -1, cbSeen: map[int]bool{}}
		}
		return views[k]
	}
	reqOwner := map[int]*gSess{}
	connOwner := map[int]*gSess{}
	for _, ss := range g.sess {
		for q := range ss.reqs {
			reqOwner[q] = ss
		}
		if ss.conn >= 0 {
			connOwner[ss.conn] = ss
		}
	}
	elapsed := 0
	sendIdx := map[int]int{}
	pendingAtEnd := ""
	for i, out := range outs {
		line := g.lines[i]
		replay := g.lines[:i+1]
		f := strings.Fields(line)
		if f[1] == "cfg" {
			continue
		}
		if f[1] == "adv" {
			elapsed += atoi(f[2])
		}
		if out == "-" {
			if f[1] == "send" {
				k := atoi(f[2][1:])
				v := view(k)
				v.openAtSend = append(v.openAtSend, v.lastState == "open")
			}
			continue // no observation was taken after this op
		}
		o := parseObs(out)
		pendingAtEnd = o.pend
		if f[1] == "send" {
			k := atoi(f[2][1:])
			v := view(k)
			v.openAtSend = append(v.openAtSend, v.lastState == "open")
			sendIdx[k]++
		}
		// --- events
		var pendingFlush = map[string]string{}
		for ei, e := range o.events {
			if !strings.HasPrefix(e.who, "s") || e.who == "srv" {
				if e.who == "srv" && e.name == "flush" {
					want, ok := pendingFlush[e.args[0]]
					if k := atoi(e.args[0][1:]); views[k] == nil || views[k].lastState == "" {
						continue // the open packet is flushed before the session is announced
					}
					if !ok || want != e.args[1] {
						r.Violate("C18", "C18/flush/server-flush-differs", "server flush event does not repeat the session's flush: "+out, replay)
					}
				}
				continue
			}
			k := atoi(e.who[1:])
			v := view(k)
			if v.closes > 0 && e.name != "cb" {
				switch e.name {
				case "message", "packet", "heartbeat", "upgrade", "upgrading", "flush", "drain":
					r.Violate("C03", "C03/silence-after-close/"+e.name, fmt.Sprintf("event %s of s%d after its close event: %s", e.name, k, out), replay)
				case "close":
					r.Violate("C03", "C03/close-twice", fmt.Sprintf("second close event of s%d: %s", k, out), replay)
				}
			}
			switch e.name {
			case "connection":
				if e.args[0] != "open" {
					r.Violate("C03", "C03/handed-over-not-open", "connection event carries a session in state "+e.args[0], replay)
				}
				v.lastState = "open"
			case "close":
				v.closes++
				v.closedAt = i
				if e.args[1] != "closed" {
					r.Violate("C03", "C03/close-event-state", "close event emitted in state "+e.args[1], replay)
				}
				if !docReasons[e.args[0]] {
					r.Violate("C03", "C03/reason/"+e.args[0], "undocumented close reason "+e.args[0], replay)
				}
				if f[1] == "drop" && e.args[0] != "transport_close" {
					// the peer went away (connection dropped, or closed with a close frame of whatever status code):
					// the documented reason of that cause is "transport close"
					trName := "?"
					for _, s2 := range g.sess {
						if s2.ord == k {
							trName = s2.transport
						}
					}
					r.Violate("C03", "C03/reason-of-cause/peer-closed/"+e.args[0]+"/"+trName, "the peer closed its "+trName+" connection ("+line+") and the session closed with reason "+e.args[0], replay)
				}
				if (f[1] == "close" || f[1] == "shutdown") && e.args[0] != "forced_close" && e.args[0] != "transport_close" {
					r.Violate("C12", "C12/reason/"+e.args[0], "application close ended with reason "+e.args[0], replay)
				}
			case "message":
				v.delivered = append(v.delivered, rmsg{e.args[0], unhx(e.args[1])})
				if v.lastState == "closing" || v.lastState == "closed" {
					r.Violate("C02", "C02/message-while-"+v.lastState, fmt.Sprintf("message event of s%d although the session was already %s before this operation: %s", k, v.lastState, out), replay)
				}
			case "flush":
				v.flushes++
				pendingFlush[e.who] = e.args[0]
				// the drain event follows, with only the server flush in between
				okPair := false
				for _, e2 := range o.events[ei+1:] {
					if e2.who == e.who && e2.name == "drain" {
						okPair = true
						break
					}
					if e2.who == e.who && (e2.name == "flush") {
						break
					}
				}
				if !okPair {
					r.Violate("C18", "C18/flush/no-drain", "flush event without a following drain event: "+out, replay)
				}
			case "cb":
				id := atoi(e.args[0])
				if v.cbSeen[id] {
					r.Violate("C18", "C18/callback/twice", fmt.Sprintf("send callback %d ran twice", id), replay)
				}
				if id < v.lastCb {
					r.Violate("C18", "C18/callback/order", fmt.Sprintf("send callback %d ran after %d", id, v.lastCb), replay)
				}
				if v.closes > 0 {
					r.Violate("C18", "C18/callback/after-close", fmt.Sprintf("send callback %d ran after the close event", id), replay)
				}
				if v.flushes == 0 {
					r.Violate("C18", "C18/callback/before-flush", fmt.Sprintf("send callback %d ran before any flush event", id), replay)
				}
				v.cbSeen[id] = true
				v.lastCb = id
			}
		}
		// --- responses
		if len(o.dupes) > 0 {
			r.Violate("C11", "C11/two-responses", "a request was answered twice: "+out, replay)
		}
		for _, rs := range o.resps {
			ss := reqOwner[rs.req]
			if ss == nil {
				continue
			}
			kind := ss.reqs[rs.req]
			v := view(ss.ord)
			if kind == "post" {
				continue
			}
			if ss.poll == rs.req {
				ss.poll = -2 // answered
			}
			if rs.status != 200 {
				continue
			}
			body := unhx(rs.body)
			var pk []epkt
			var err error
			if ss.proto == 4 {
				pk, err = decodeV4Payload(body)
			} else if rs.ct == "bin" {
				pk, err = decodeV3BinaryPayload(body)
			} else {
				pk, err = decodeV3StringPayload(body)
			}
			if err != nil {
				r.Violate("C16", fmt.Sprintf("C16/payload/undecodable/proto=%d/ct=%s", ss.proto, rs.ct), fmt.Sprintf("poll response of s%d (proto %d) does not decode: %v: %s", ss.ord, ss.proto, err, rs.body), replay)
				v.undecodable = fmt.Sprintf("/after-undecodable-payload-ct=%s", rs.ct)
				continue
			}
			for _, p := range pk {
				if p.typ == '4' {
					v.received = append(v.received, rmsg{p.kind, p.data})
				}
			}
		}
		for c, frs := range o.frames {
			ss := connOwner[c]
			if ss == nil {
				continue
			}
			v := view(ss.ord)
			for _, fr := range frs {
				var p epkt
				var err error
				if ss.proto == 4 {
					p, err = decodeV4Packet(fr.data, fr.kind)
				} else if fr.kind == "b" {
					if len(fr.data) == 0 {
						err = fmt.Errorf("empty")
					} else {
						p = epkt{fr.data[0] + '0', "b", fr.data[1:]}
					}
				} else {
					var ps []epkt
					ps, err = decodeV3StringPayload([]byte(fmt.Sprintf("%d:%s", utf16Len(fr.data), fr.data)))
					if len(ps) == 1 {
						p = ps[0]
					}
				}
				if err != nil {
					r.Violate("C01", "C01/frame/undecodable", fmt.Sprintf("frame for s%d does not decode: %v", ss.ord, err), replay)
					continue
				}
				if p.typ == '4' {
					v.received = append(v.received, rmsg{p.kind, p.data})
				}
			}
		}
		// --- states and registry
		var liveOrds []int
		for k := 0; k < len(o.states); k++ {
			st := o.states[k]
			v := view(k)
			if v.lastState != "" && rsRank[st[0]] < rsRank[v.lastState] {
				r.Violate("C03", "C03/state-went-back", fmt.Sprintf("s%d went from %s to %s", k, v.lastState, st[0]), replay)
			}
			v.lastState = st[0]
			if st[0] != "closed" {
				liveOrds = append(liveOrds, k)
			}
		}
		wantReg := fmt.Sprintf("%s:%d", ints(liveOrds), len(liveOrds))
		if o.reg != wantReg {
			r.Violate("C04", "C04/registry-differs", fmt.Sprintf("registry %s but live sessions %s: %s", o.reg, wantReg, out), replay)
		}
		// --- per-op prefix check (C01): received is a prefix of what was sent while open
		for _, ss := range g.sess {
			v := view(ss.ord)
			if v.violated {
				continue
			}
			var sentOpen []rmsg
			for j, m := range ss.sent {
				if j < len(v.openAtSend) && v.openAtSend[j] {
					sentOpen = append(sentOpen, m)
				}
			}
			okp := len(v.received) <= len(sentOpen)
			for j := 0; okp && j < len(v.received); j++ {
				okp = v.received[j].kind == sentOpen[j].kind && bytes.Equal(v.received[j].data, sentOpen[j].data)
			}
			if !okp {
				v.violated = true
				r.Violate("C01", fmt.Sprintf("C01/prefix/%s/proto=%d/b64=%s%s", ss.transport, ss.proto, b01(ss.b64), v.undecodable),
					fmt.Sprintf("client of s%d received %d messages that are not a prefix of the %d sent", ss.ord, len(v.received), len(sentOpen)), replay)
			}
		}
	}
	// --- end of run
	all := g.lines
	for _, ss := range g.sess {
		v := view(ss.ord)
		r.Cover(fmt.Sprintf("ses/%s/proto=%d/b64=%s/closed=%s/sent=%d/posted=%d", ss.transport, ss.proto, b01(ss.b64), b01(v.closes > 0), min(len(ss.sent), 3), min(len(ss.posted), 3)))
		if !ss.closeCause && elapsed < g.I && v.lastState != "open" {
			r.Violate("C03", "C03/closed-without-cause", fmt.Sprintf("s%d is %s although nothing that closes a session happened", ss.ord, v.lastState), all)
		}
		if ss.closeReq && v.lastState != "closed" && g.now-ss.closeReqAt >= g.I+g.T+50 {
			r.Violate("C12", "C12/not-closed-in-bounded-time/"+ss.transport, fmt.Sprintf("s%d: close requested at %d ms, still %s at %d ms (heartbeat bound %d ms)", ss.ord, ss.closeReqAt, v.lastState, g.now, g.I+g.T), all)
			r.Violate("C03", "C03/left-open-without-close-event/"+ss.transport, fmt.Sprintf("s%d stopped being open at %d ms (Close) and at %d ms is %s with %d close events", ss.ord, ss.closeReqAt, g.now, v.lastState, v.closes), all)
		}
		if g.silenceEnd && v.lastState != "closed" && !ss.closeReq {
			r.Violate("C07", "C07/silent-peer-not-closed/"+ss.transport, fmt.Sprintf("s%d is %s after %d ms of silence (ping interval %d, timeout %d)", ss.ord, v.lastState, 30000+g.I+g.T+100, g.I, g.T), all)
		}
		if v.lastState == "closed" && v.closes != 1 {
			r.Violate("C03", fmt.Sprintf("C03/close-count=%d", v.closes), fmt.Sprintf("s%d is closed with %d close events", ss.ord, v.closes), all)
		}
		if v.lastState == "open" && !v.violated {
			var sentOpen []rmsg
			for j, m := range ss.sent {
				if j < len(v.openAtSend) && v.openAtSend[j] {
					sentOpen = append(sentOpen, m)
				}
			}
			if len(v.received) != len(sentOpen) && (ss.transport != "polling" || ss.polledAtEnd) {
				r.Violate("C01", fmt.Sprintf("C01/not-delivered/%s/proto=%d/b64=%s%s", ss.transport, ss.proto, b01(ss.b64), v.undecodable),
					fmt.Sprintf("s%d stayed open and its client kept reading, but only %d of %d messages arrived", ss.ord, len(v.received), len(sentOpen)), all)
			}
		}
		// C02: everything well-formed that was submitted while open is delivered once, in order
		if !ss.closeCause || v.closes == 0 {
			okd := len(v.delivered) == len(ss.posted)
			for j := 0; okd && j < len(ss.posted); j++ {
				okd = v.delivered[j].kind == ss.posted[j].kind && bytes.Equal(v.delivered[j].data, ss.posted[j].data)
			}
			if !okd {
				r.Violate("C02", fmt.Sprintf("C02/delivery/%s/proto=%d/b64=%s", ss.transport, ss.proto, b01(ss.b64)),
					fmt.Sprintf("s%d: %d message events for %d well-formed messages submitted", ss.ord, len(v.delivered), len(ss.posted)), all)
			}
		} else {
			// a prefix at least, never something that was not submitted
			okd := len(v.delivered) <= len(ss.posted)
			for j := 0; okd && j < len(v.delivered); j++ {
				okd = v.delivered[j].kind == ss.posted[j].kind && bytes.Equal(v.delivered[j].data, ss.posted[j].data)
			}
			if !okd {
				r.Violate("C02", fmt.Sprintf("C02/delivery-not-prefix/%s/proto=%d", ss.transport, ss.proto),
					fmt.Sprintf("s%d: delivered messages are not a prefix of the submitted ones", ss.ord), all)
			}
		}
		// C12/C11: a closed session's pending poll was released
		if v.lastState == "closed" {
			for q := range ss.reqs {
				for _, pq := range strings.Split(pendingAtEnd, ",") {
					if pq == fmt.Sprint(q) {
						r.Violate("C12", "C12/request-not-released/"+ss.reqs[q], fmt.Sprintf("s%d is closed but its %s request %d was never answered", ss.ord, ss.reqs[q], q), all)
						r.Violate("C11", "C11/request-never-answered/"+ss.reqs[q], fmt.Sprintf("s%d is closed but its %s request %d was never answered", ss.ord, ss.reqs[q], q), all)
					}
				}
			}
		}
	}
}
