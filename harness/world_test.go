package harness

import (
	"bufio"
	"bytes"
	"context"
	"fmt"
	"io"
	"net"
	"net/http"
	"net/http/httptest"
	"net/url"
	"sort"
	"strings"
	"sync"
	"testing"
	"testing/synctest"
	"time"

	"github.com/gorilla/websocket"
	"github.com/zishang520/engine.io/v2/config"
	"github.com/zishang520/engine.io/v2/engine"
	"github.com/zishang520/engine.io/v2/types"
	ewt "github.com/zishang520/engine.io/v2/webtransport"
	"github.com/zishang520/webtransport-go"
)

// world is one engine server plus the clients talking to it, all inside one
// synctest bubble (virtual time, quiescence barrier).
type world struct {
	t     *testing.T
	opts  *config.ServerOptions
	srv   engine.Server
	hs    *types.HttpServer
	start time.Time

	mu       sync.Mutex
	trace    []string
	socks    []engine.Socket
	sockIdx  map[string]int
	cerr     []*types.ErrorMessage
	served   []string // which handler served each routed request
	reqs     []*hreq
	conns    []*wsClient
	cleanups []func()
	onWrite  func(i int)
}

func (w *world) now() int64 {
	if rtMode {
		return 0 // real-time scenarios do not compare instants
	}
	return int64(time.Since(w.start))
}

// idle waits until nothing moves any more: the bubble's quiescence barrier, or
// (real-time scenarios over a QUIC loopback, see sesq_test.go) a sampled one.
var idle = synctest.Wait
var rtMode = false

func (w *world) ev(format string, a ...any) {
	w.mu.Lock()
	w.trace = append(w.trace, fmt.Sprintf("t=%d ", w.now())+fmt.Sprintf(format, a...))
	w.mu.Unlock()
}

// bubble runs f inside a synctest bubble and tears the world down afterwards
// so that no goroutine is left blocked.
func bubble(t *testing.T, f func(t *testing.T)) {
	lastBubbleLeak = ""
	if rtMode {
		f(t)
		return
	}
	defer func() {
		// the bubble refuses to end while goroutines started inside it are still blocked: that is an
		// observation about the scenario (something outlived the teardown), not a reason to lose the family
		if p := recover(); p != nil {
			if msg := fmt.Sprint(p); strings.Contains(msg, "blocked goroutines remain") {
				lastBubbleLeak = msg
				return
			}
			panic(p)
		}
	}()
	synctest.Test(t, f)
}

// declareLen, when >= 0, is the Content-Length the next request declares whatever its body holds.
var declareLen = -1

// wrapBody, when set, wraps the body reader of the next request (a stalled upload).
var wrapBody func(io.Reader) io.Reader

// lastBubbleLeak is non-empty when the last bubble ended with goroutines left behind.
var lastBubbleLeak string

type attachSpec struct {
	mode     string // "none" (nil), "server" (server options only), "opts"
	path     *string
	addSlash *bool
	before   []string // app patterns registered before Attach
	after    []string // app patterns registered after Attach
}

func newWorld(t *testing.T, opts *config.ServerOptions, at *attachSpec) *world {
	w := &world{t: t, opts: opts, start: time.Now(), sockIdx: map[string]int{}}
	if opts == nil {
		w.srv = engine.NewServer(nil)
	} else {
		w.srv = engine.NewServer(opts)
	}
	w.srv.On("connection", func(a ...any) {
		s := a[0].(engine.Socket)
		w.mu.Lock()
		ord := len(w.socks)
		w.socks = append(w.socks, s)
		w.sockIdx[s.Id()] = ord
		w.mu.Unlock()
		w.ev("s=%d ev=connection state=%s transport=%s proto=%d", ord, s.ReadyState(), s.Transport().Name(), s.Protocol())
		w.watch(ord, s)
	})
	w.srv.On("connection_error", func(a ...any) {
		em := a[0].(*types.ErrorMessage)
		w.mu.Lock()
		w.cerr = append(w.cerr, em)
		w.mu.Unlock()
		w.ev("ev=connection_error code=%d msg=%s", em.Code, hx([]byte(em.Message)))
	})
	if at != nil {
		w.hs = types.NewWebServer(http.HandlerFunc(func(rw http.ResponseWriter, r *http.Request) {
			w.served = append(w.served, "default")
			rw.WriteHeader(404)
		}))
		reg := func(p string) {
			w.hs.HandleFunc(p, func(rw http.ResponseWriter, r *http.Request) {
				w.served = append(w.served, "app:"+p)
				rw.WriteHeader(204)
			})
		}
		for _, p := range at.before {
			reg(p)
		}
		switch at.mode {
		case "none":
			w.srv.Attach(w.hs, nil)
		case "server":
			w.srv.Attach(w.hs, opts)
		default:
			ao := &config.AttachOptions{}
			if at.path != nil {
				ao.SetPath(*at.path)
			}
			if at.addSlash != nil {
				ao.SetAddTrailingSlash(*at.addSlash)
			}
			w.srv.Attach(w.hs, ao)
		}
		for _, p := range at.after {
			reg(p)
		}
	}
	return w
}

// watch records the session's events with the ready state sampled at each.
func (w *world) watch(ord int, s engine.Socket) {
	for _, name := range []string{"open", "packet", "heartbeat", "upgrading", "upgrade", "drain", "error"} {
		name := name
		s.On(types.EventName(name), func(a ...any) { w.ev("s=%d ev=%s state=%s", ord, name, s.ReadyState()) })
	}
	s.On("message", func(a ...any) {
		kind, data := bufKind(a[0])
		w.ev("s=%d ev=message state=%s kind=%s data=%s", ord, s.ReadyState(), kind, hx(data))
	})
	s.On("close", func(a ...any) {
		w.ev("s=%d ev=close state=%s reason=%s", ord, s.ReadyState(), strings.ReplaceAll(a[0].(string), " ", "_"))
	})
}

func bufKind(x any) (string, []byte) {
	switch b := x.(type) {
	case *types.StringBuffer:
		return "t", append([]byte(nil), b.Bytes()...)
	case *types.BytesBuffer:
		return "b", append([]byte(nil), b.Bytes()...)
	case io.Reader:
		d, _ := io.ReadAll(b)
		return "r", d
	}
	return "?", nil
}

// ---- HTTP requests -------------------------------------------------------

type countingBody struct {
	r        io.Reader
	consumed int
	closed   bool
}

func (c *countingBody) Read(p []byte) (int, error) {
	n, err := c.r.Read(p)
	c.consumed += n
	return n, err
}
func (c *countingBody) Close() error { c.closed = true; return nil }

type hreq struct {
	rec      *httptest.ResponseRecorder
	cancel   context.CancelFunc
	done     chan struct{}
	body     *countingBody
	returned bool
	panicked any
	writes   int
	reported bool
	panicReported bool
	req      *http.Request
}

type countingRW struct {
	*httptest.ResponseRecorder
	h *hreq
	w *world
	i int
}

func (c *countingRW) WriteHeader(code int) {
	c.h.writes++
	if c.w.onWrite != nil {
		c.w.onWrite(c.i)
	}
	c.ResponseRecorder.WriteHeader(code)
}

// request starts a request against the mux (viaMux) or the engine directly
// and waits for quiescence; the handler may still be parked (pending poll).
func (w *world) request(method, target string, hdr http.Header, body []byte, declared bool, viaMux bool) *hreq {
	ctx, cancel := context.WithCancel(context.Background())
	var rd io.Reader
	h := &hreq{rec: httptest.NewRecorder(), cancel: cancel, done: make(chan struct{})}
	if body != nil {
		var src io.Reader = bytes.NewReader(body)
		if wrapBody != nil {
			src = wrapBody(src)
		}
		h.body = &countingBody{r: src}
		rd = h.body
	}
	req := httptest.NewRequest(method, target, rd).WithContext(ctx)
	if body != nil && !declared {
		req.ContentLength = -1
	} else if body != nil {
		req.ContentLength = int64(len(body))
		if declareLen >= 0 {
			req.ContentLength = int64(declareLen)
		}
	}
	for k, v := range hdr {
		req.Header[k] = v
	}
	h.req = req
	idx := len(w.reqs)
	w.reqs = append(w.reqs, h)
	var handler http.Handler = w.srv
	if viaMux {
		handler = w.hs
	}
	go func() {
		defer close(h.done)
		defer cancel() // net/http cancels the request context when the handler returns
		defer func() {
			if p := recover(); p != nil {
				h.panicked = p
			}
		}()
		handler.ServeHTTP(&countingRW{h.rec, h, w, idx}, req)
		h.returned = true
	}()
	idle()
	return h
}

func (h *hreq) finished() bool {
	select {
	case <-h.done:
		return true
	default:
		return false
	}
}

// abort simulates the client going away.
func (h *hreq) abort() { h.cancel(); idle() }

// ---- WebSocket clients ----------------------------------------------------

type hijackRW struct {
	hijacked bool
	conn net.Conn
	brw  *bufio.ReadWriter
	hdr  http.Header
	code int
	body bytes.Buffer
}

func (h *hijackRW) Header() http.Header { return h.hdr }
func (h *hijackRW) WriteHeader(c int)   { h.code = c }
func (h *hijackRW) Write(p []byte) (int, error) {
	if h.code == 0 {
		h.code = 200
	}
	return h.body.Write(p)
}
func (h *hijackRW) Hijack() (net.Conn, *bufio.ReadWriter, error) {
	h.hijacked = true
	return h.conn, h.brw, nil
}

type wsFrame struct {
	kind string
	data []byte
}

type wsClient struct {
	conn     *websocket.Conn
	cc, sc   net.Conn
	mu       sync.Mutex
	frames   []wsFrame
	closed   string // "" while open; else close description
	dialErr  string
	status   int
	noResponse bool
	unparseable bool
	servDone chan struct{}
	readDone chan struct{}
	// a WebTransport client over the QUIC loopback (sesq_test.go)
	wtSess *webtransport.Session
	wtConn *ewt.Conn
	stalled chan struct{} // non-nil: the read loop waits here before its next read
	seen   int // frames already taken (the real-time quiescence sampler counts every frame once)
}

// wsDial opens a WebSocket to the engine through an in-memory pipe: the
// request bytes gorilla's client writes are parsed by net/http's reader and
// handed to the engine with a hijackable ResponseWriter.
func (w *world) wsDial(target string, hdr http.Header, viaMux bool) *wsClient {
	cc, sc := net.Pipe()
	c := &wsClient{cc: cc, sc: sc, servDone: make(chan struct{}), readDone: make(chan struct{})}
	w.conns = append(w.conns, c)
	var handler http.Handler = w.srv
	if viaMux {
		handler = w.hs
	}
	go func() {
		defer close(c.servDone)
		br := bufio.NewReader(sc)
		req, err := http.ReadRequest(br)
		if err != nil { // net/http itself refuses the request bytes: the engine is never reached
			c.unparseable = true
			sc.Close()
			return
		}
		ctx, cancel := context.WithCancel(context.Background())
		defer cancel()
		rw := &hijackRW{conn: sc, brw: bufio.NewReadWriter(br, bufio.NewWriter(sc)), hdr: http.Header{}}
		handler.ServeHTTP(rw, req.WithContext(ctx))
		if !rw.hijacked { // refused before the upgrade: answer over the pipe like net/http would
			if rw.code == 0 {
				rw.code = 200 // net/http's implicit 200 for a handler that wrote nothing
				c.noResponse = true
			}
			fmt.Fprintf(sc, "HTTP/1.1 %d X\r\nContent-Length: %d\r\nContent-Type: %s\r\n\r\n%s", rw.code, rw.body.Len(), rw.hdr.Get("Content-Type"), rw.body.String())
			sc.Close()
		}
	}()
	u, _ := url.Parse("ws://engine.test" + target)
	done := make(chan struct{})
	go func() {
		defer close(done)
		conn, resp, err := websocket.NewClient(cc, u, hdr, 1024, 1024)
		if resp != nil {
			c.status = resp.StatusCode
			if err != nil && resp.Body != nil {
				b, _ := io.ReadAll(resp.Body)
				c.dialErr = string(b)
			}
		}
		if err != nil {
			if c.dialErr == "" {
				c.dialErr = err.Error()
			}
			close(c.readDone)
			return
		}
		c.conn = conn
		go c.readLoop()
	}()
	idle()
	<-done
	idle()
	return c
}

// stall makes the client stop reading after the message it is waiting for (then the server's writes block).
func (c *wsClient) stall() {
	c.mu.Lock()
	c.stalled = make(chan struct{})
	c.mu.Unlock()
	idle()
}

func (c *wsClient) readLoop() {
	defer close(c.readDone)
	for {
		c.mu.Lock()
		st := c.stalled
		c.mu.Unlock()
		if st != nil {
			<-st
		}
		mt, data, err := c.conn.ReadMessage()
		c.mu.Lock()
		if err != nil {
			if ce, ok := err.(*websocket.CloseError); ok {
				c.closed = fmt.Sprintf("close:%d:%s", ce.Code, hx([]byte(ce.Text)))
			} else {
				c.closed = "error"
			}
			c.mu.Unlock()
			return
		}
		k := "t"
		if mt == websocket.BinaryMessage {
			k = "b"
		}
		c.frames = append(c.frames, wsFrame{k, data})
		c.mu.Unlock()
	}
}

func (c *wsClient) send(kind string, data []byte) error {
	if c.wtConn != nil {
		mt := ewt.TextMessage
		if kind == "b" {
			mt = ewt.BinaryMessage
		}
		err := c.wtConn.WriteMessage(mt, data)
		idle()
		return err
	}
	mt := websocket.TextMessage
	if kind == "b" {
		mt = websocket.BinaryMessage
	}
	err := c.conn.WriteMessage(mt, data)
	idle()
	return err
}

// take returns and clears the frames received so far.
func (c *wsClient) take() []wsFrame {
	c.mu.Lock()
	defer c.mu.Unlock()
	f := c.frames
	c.seen += len(f)
	c.frames = nil
	return f
}

// drop closes the client's end abruptly (no close frame).
func (c *wsClient) drop() {
	if c.wtSess != nil {
		c.wtSess.CloseWithError(0, "")
		idle()
		return
	}
	if c.cc != nil {
		c.cc.Close()
	}
	idle()
}

// closeFrame says goodbye properly: a close frame with a status code; the server echoes it and closes.
func (c *wsClient) closeFrame(code int) {
	if c.conn != nil {
		c.conn.WriteControl(websocket.CloseMessage, websocket.FormatCloseMessage(code, ""), time.Now().Add(time.Second))
	}
	idle()
}

// ---- teardown ---------------------------------------------------------------

func (w *world) teardown() {
	defer func() { recover() }()
	w.srv.Close()
	idle()
	for _, c := range w.conns {
		if c.wtSess != nil || c.cc == nil {
			c.drop()
			continue
		}
		c.cc.Close()
		c.sc.Close()
	}
	for _, r := range w.reqs {
		r.cancel()
	}
	idle()
	if !rtMode {
		time.Sleep(40 * time.Second)
	}
	idle()
	for _, f := range w.cleanups {
		f()
	}
	idle()
}

func (w *world) registry() string {
	keys := w.srv.Clients().Keys()
	ords := make([]int, 0, len(keys))
	unknown := 0
	w.mu.Lock()
	for _, k := range keys {
		if o, ok := w.sockIdx[k]; ok {
			ords = append(ords, o)
		} else {
			unknown++
		}
	}
	w.mu.Unlock()
	sort.Ints(ords)
	return fmt.Sprintf("keys=%s count=%d unknown=%d", ints(ords), w.srv.ClientsCount(), unknown)
}

func (w *world) sock(i int) engine.Socket {
	w.mu.Lock()
	defer w.mu.Unlock()
	if i < 0 || i >= len(w.socks) {
		return nil
	}
	return w.socks[i]
}
