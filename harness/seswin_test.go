package harness

import (
	"fmt"
	"sort"
	"strings"
	"testing"
)

func init() {
	families["ses-win"] = famSesWin
	scenarioRunners["sesw"] = func(t *testing.T, lines []string) []string {
		_, res := sesWinRun(t, lines)
		return res
	}
}

// sesWinRun runs a window scenario ("sesw ..." lines, the last one "sesw end").
// Only the last line is answered, with a summary that does not depend on where
// inside its operation a parked goroutine stood: the model runs the same
// operations one after the other (arm/release are no-ops there) and must end
// in the same summary, i.e. the interleaving is equivalent to the sequential run.
func sesWinRun(t *testing.T, lines []string) (detail []string, res []string) {
	inner := make([]string, len(lines))
	for i, l := range lines {
		f := strings.Fields(l)
		f[0] = "ses"
		if f[1] == "end" {
			f = []string{"ses", "obs"}
		}
		inner[i] = strings.Join(f, " ")
	}
	detail = sesRun(t, inner)
	res = make([]string, len(lines))
	for i := range res {
		res[i] = "-"
	}
	res[0] = "ok"
	res[len(res)-1] = winSummary(detail)
	return
}

func winSummary(outs []string) string {
	closes := map[int]int{}
	var states map[int][3]string
	reg, pend := "-:0", "-"
	ended := map[int]bool{}
	nconn := 0
	for _, out := range outs {
		if out == "-" || out == "ok" {
			continue
		}
		o := parseObs(out)
		for _, e := range o.events {
			if strings.HasPrefix(e.who, "s") && e.who != "srv" && e.name == "close" {
				closes[atoi(e.who[1:])]++
			}
		}
		if len(o.states) > 0 {
			states = o.states
		}
		reg, pend = o.reg, o.pend
		for c := range o.ended {
			ended[c] = true
			if c+1 > nconn {
				nconn = c + 1
			}
		}
		for c := range o.frames {
			if c+1 > nconn {
				nconn = c + 1
			}
		}
	}
	var parts []string
	// sessions that are closed, once, are not listed: one that closed before it was announced is
	// never shown to the application at all
	for k := 0; k < len(states); k++ {
		x := ""
		if closes[k] > 1 {
			x = fmt.Sprintf(":x%d", closes[k])
		}
		if states[k][0] != "closed" || x != "" {
			parts = append(parts, fmt.Sprintf("s%d:%s%s", k, states[k][0], x))
		}
	}
	parts = append(parts, "G:"+reg, "P:"+pend)
	var cs []int
	for c := range ended {
		cs = append(cs, c)
	}
	sort.Ints(cs)
	parts = append(parts, "X:"+ints(cs))
	return "W " + strings.Join(parts, " ")
}

// famSesWin: two causes inside the same check-then-act window (C03, C04, C08).
func famSesWin(t *testing.T, r *Rec) {
	type scen struct {
		name  string
		lines []string
	}
	var scens []scen
	cfg := "sesw cfg 400 200 1000 100000 default 1 1 - 0 -"
	add := func(name string, body ...string) {
		scens = append(scens, scen{name, append(append([]string{cfg}, body...), "sesw adv 10", "sesw end")})
	}
	// a ping timeout parked inside OnClose (after its check) while another cause closes the session
	for _, tr := range []string{"websocket", "polling"} {
		for _, other := range []string{"app-close1", "app-close0", "shutdown", "peer"} {
			body := []string{fmt.Sprintf("sesw hs %s 4 0 -", tr), "sesw arm socket.OnClose.window", "sesw adv 600"}
			switch other {
			case "app-close1":
				body = append(body, "sesw close s0 1")
			case "app-close0":
				body = append(body, "sesw close s0 0")
			case "shutdown":
				body = append(body, "sesw shutdown")
			case "peer":
				if tr == "websocket" {
					body = append(body, "sesw drop 0")
				} else {
					body = append(body, "sesw post s0 t 1 31")
				}
			}
			body = append(body, "sesw release socket.OnClose.window")
			add(fmt.Sprintf("onclose-x-onclose/%s/%s", tr, other), body...)
		}
	}
	// an application Close parked after its check while the ping timeout closes the session
	for _, tr := range []string{"websocket", "polling"} {
		for _, d := range []string{"0", "1"} {
			if d == "1" {
				continue // Close(true) does not pass through the window
			}
			add(fmt.Sprintf("close-x-onclose/%s/discard=%s", tr, d),
				fmt.Sprintf("sesw hs %s 4 0 -", tr), "sesw arm socket.Close.window", "sesw close s0 "+d, "sesw adv 600", "sesw release socket.Close.window")
		}
	}
	// the session dies between its construction and its registration
	add("handshake-x-drop/websocket", "sesw arm handshake.registered", "sesw hs websocket 4 0 -", "sesw drop 0", "sesw release handshake.registered")
	add("handshake-x-timeout/polling", "sesw arm handshake.registered", "sesw hs polling 4 0 -", "sesw adv 600", "sesw release handshake.registered")
	// the peer goes away while an application listener of the server's flush / drain event of the open packet is running
	for _, tr := range []string{"websocket"} {
		for _, ev := range []string{"flush", "drain"} {
			add(fmt.Sprintf("handshake-x-drop-in-listener/%s/%s", tr, ev), "sesw hsreact "+ev, fmt.Sprintf("sesw hs %s 4 0 -", tr), "sesw drop 0", "sesw adv 700")
			add(fmt.Sprintf("handshake-x-drop-in-listener-soon-after/%s/%s", tr, ev), "sesw hsreact "+ev, fmt.Sprintf("sesw hs %s 4 0 -", tr), "sesw drop 0")
		}
	}
	// the session closes between the lookup of an upgrade request and the attachment of the candidate
	for _, how := range []string{"close1", "timeout"} {
		body := []string{"sesw hs polling 4 0 -", "sesw arm ws.candidate.attach", "sesw ws s0 4 0"}
		if how == "close1" {
			body = append(body, "sesw close s0 1")
		} else {
			body = append(body, "sesw adv 600")
		}
		body = append(body, "sesw release ws.candidate.attach", "sesw frame 0 t 3270726f6265", "sesw frame 0 t 35", "sesw adv 1100")
		add("candidate-attach-x-"+how, body...)
	}
	// the candidate's connection goes away after its reader was started but before MaybeUpgrade listens to it:
	// once the attempt has timed out the session accepts a new candidate, which completes the switch
	add("candidate-attach-x-candidate-drop", "sesw hs polling 4 0 -", "sesw arm ws.candidate.attach", "sesw ws s0 4 0", "sesw drop 0",
		"sesw release ws.candidate.attach", "sesw adv 400", "sesw poll s0", "sesw post s0 t 1 33", "sesw adv 400", "sesw poll s0", "sesw post s0 t 1 33",
		"sesw adv 300", "sesw ws s0 4 0", "sesw frame 1 t 3270726f6265", "sesw frame 1 t 35", "sesw send s0 t 6869 0 0 -")
	// a second candidate whose handshake was accepted while the first one was still probing reaches the candidate gate
	// only after the first has completed the switch: it is closed, and its own probe and upgrade packets change nothing
	add("late-candidate-x-completed-upgrade", "sesw hs polling 4 0 -", "sesw ws s0 4 0", "sesw frame 0 t 3270726f6265", "sesw arm ws.upgraded", "sesw ws s0 4 0",
		"sesw adv 100", "sesw poll s0", "sesw frame 0 t 35", "sesw release ws.upgraded", "sesw frame 1 t 3270726f6265", "sesw frame 1 t 35", "sesw send s0 t 6869 0 0 -")
	for _, sc := range scens {
		detail, res := sesWinRun(t, sc.lines)
		r.scenarios++
		for i, l := range sc.lines {
			r.Op(l, res[i])
		}
		r.Cover("win/" + sc.name)
		// monitors on the detailed observations
		closes := map[int]int{}
		last := map[int]string{}
		afterClose := map[int][]string{}
		for i, out := range detail {
			if out == "-" || out == "ok" {
				continue
			}
			o := parseObs(out)
			for _, e := range o.events {
				if !strings.HasPrefix(e.who, "s") || e.who == "srv" {
					continue
				}
				k := atoi(e.who[1:])
				if closes[k] > 0 && e.name != "upgrading" {
					afterClose[k] = append(afterClose[k], e.name)
				}
				if e.name == "close" {
					closes[k]++
				}
			}
			for k, st := range o.states {
				if last[k] != "" && rsRank[st[0]] < rsRank[last[k]] {
					r.Violate("C03", "C03/window/state-went-back/"+sc.name, fmt.Sprintf("s%d went from %s to %s", k, last[k], st[0]), sc.lines[:i+1])
				}
				last[k] = st[0]
			}
		}
		for k, n := range closes {
			if n > 1 {
				r.Violate("C03", "C03/window/close-twice/"+sc.name, fmt.Sprintf("s%d emitted %d close events", k, n), sc.lines)
			}
		}
		for k, evs := range afterClose {
			r.Violate("C03", "C03/window/event-after-close/"+sc.name, fmt.Sprintf("s%d: events %v after its close event", k, evs), sc.lines)
		}
		if strings.HasPrefix(sc.name, "handshake-x-drop") {
			// the application is handed a session while it is open, or not at all
			for i, out := range detail {
				if out == "-" || out == "ok" {
					continue
				}
				for _, e := range parseObs(out).events {
					if e.name == "connection" && e.args[0] != "open" {
						r.Violate("C03", "C03/window/handed-over-not-open/"+sc.name, "the connection event hands the application a session in state "+e.args[0], sc.lines[:i+1])
					}
				}
			}
			if fin := parseObs(detail[len(detail)-1]); len(fin.states) > 0 && fin.states[0][0] != "closed" {
				r.Violate("C03", "C03/window/session-outlived-its-connection/"+sc.name, "long after its peer went away during the handshake the session is "+fin.states[0][0], sc.lines)
			}
		}
		end := parseObs(detail[len(detail)-1])
		var live []int
		for k, st := range end.states {
			if st[0] != "closed" {
				live = append(live, k)
			}
		}
		if want := fmt.Sprintf("%s:%d", ints(live), len(live)); end.reg != want {
			r.Violate("C04", "C04/window/registry-differs/"+sc.name, fmt.Sprintf("registry %s but live sessions %s", end.reg, want), sc.lines)
		}
		if sc.name == "late-candidate-x-completed-upgrade" {
			ups := 0
			for _, out := range detail {
				if out == "-" || out == "ok" {
					continue
				}
				for _, e := range parseObs(out).events {
					if e.who == "s0" && e.name == "upgrade" {
						ups++
					}
				}
			}
			if ups != 1 {
				r.Violate("C08", "C08/window/upgrade-events="+fmt.Sprint(ups), fmt.Sprintf("a candidate that reached the gate after another had completed the switch: %d upgrade events, want 1", ups), sc.lines)
			}
		}
		if sc.name == "candidate-attach-x-candidate-drop" {
			if st, ok := end.states[0]; !ok || st[0] != "open" || st[1] != "websocket" || st[2] != "01" {
				r.Violate("C08", "C08/window/no-upgrade-after-early-closed-candidate", fmt.Sprintf("a candidate whose connection closed before MaybeUpgrade listened to it timed out; a later candidate that follows the protocol left the session %v, want open/websocket/01", end.states[0]), sc.lines)
			}
		}
		if strings.HasPrefix(sc.name, "candidate-attach") && sc.name != "candidate-attach-x-candidate-drop" && end.ended[0] == "" {
			ended := false
			for _, out := range detail {
				if out != "-" && out != "ok" && parseObs(out).ended[0] != "" {
					ended = true
				}
			}
			if !ended {
				r.Violate("C08", "C08/window/candidate-for-closed-session-kept/"+sc.name, "the candidate of a session that closed meanwhile was never closed", sc.lines)
			}
		}
	}
}
