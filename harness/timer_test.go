package harness

import (
	"fmt"
	"runtime"
	"sort"
	"strings"
	"sync"
	"testing"
	"testing/synctest"
	"time"

	"github.com/zishang520/engine.io/v2/utils"
)

func init() {
	families["timer"] = famTimer
	scenarioRunners["tm"] = tmRun
}

// tm ops (one bubble per scenario; times in ms of virtual time since cfg):
//   tm cfg | tm timeout k ms | tm interval k ms | tm refresh k | tm stop k | tm clearnil
//   tm sleep ms | tm stopat k ms   (Stop issued from another goroutine exactly ms from now, then sleep ms)
// every op answers "fired=<k@t,...> g=<timer goroutines alive>"
func tmRun(t *testing.T, lines []string) []string {
	var outs []string
	bubble(t, func(t *testing.T) {
		var mu sync.Mutex
		var fired []string
		timers := map[int]*utils.Timer{}
		start := time.Now()
		base := 0
		settle := func() { synctest.Wait() }
		answer := func() string {
			settle()
			mu.Lock()
			// canonical order: by instant, then by timer (same-instant callbacks of
			// different timers run in unspecified order)
			sort.Slice(fired, func(i, j int) bool {
				var ki, ti, kj, tj int
				fmt.Sscanf(fired[i], "%d@%d", &ki, &ti)
				fmt.Sscanf(fired[j], "%d@%d", &kj, &tj)
				return ti < tj || (ti == tj && ki < kj)
			})
			f := strings.Join(fired, ",")
			fired = nil
			mu.Unlock()
			if f == "" {
				f = "-"
			}
			return fmt.Sprintf("fired=%s g=%d", f, runtime.NumGoroutine()-base)
		}
		cb := func(k int) func() {
			return func() {
				mu.Lock()
				fired = append(fired, fmt.Sprintf("%d@%d", k, time.Since(start).Milliseconds()))
				mu.Unlock()
			}
		}
		for _, l := range lines {
			f := strings.Fields(l)
			switch f[1] {
			case "cfg":
				settle()
				base = runtime.NumGoroutine()
				outs = appendLive(outs, "ok")
				continue
			case "timeout":
				k := atoi(f[2])
				timers[k] = utils.SetTimeout(cb(k), time.Duration(atoi(f[3]))*time.Millisecond)
			case "interval":
				k := atoi(f[2])
				timers[k] = utils.SetInterval(cb(k), time.Duration(atoi(f[3]))*time.Millisecond)
			case "refresh":
				timers[atoi(f[2])].Refresh()
			case "stop":
				timers[atoi(f[2])].Stop()
			case "intervalself": // tm intervalself <k> <period> <n>: the callback cancels its own interval on its n-th run
				k, left := atoi(f[2]), atoi(f[4])
				inner := cb(k)
				timers[k] = utils.SetInterval(func() {
					inner()
					left--
					if left == 0 {
						timers[k].Stop()
					}
				}, time.Duration(atoi(f[3]))*time.Millisecond)
			case "timeoutself": // tm timeoutself <k> <period> <n>: the callback re-arms its own timeout (Refresh) on its first n runs
				k, left := atoi(f[2]), atoi(f[4])
				inner := cb(k)
				timers[k] = utils.SetTimeout(func() {
					inner()
					if left > 0 {
						left--
						timers[k].Refresh()
					}
				}, time.Duration(atoi(f[3]))*time.Millisecond)
			case "timeoutstop": // created and cancelled back to back: the waiter goroutine has not run yet
				k := atoi(f[2])
				timers[k] = utils.SetTimeout(cb(k), time.Duration(atoi(f[3]))*time.Millisecond)
				timers[k].Stop()
			case "intervalstop":
				k := atoi(f[2])
				timers[k] = utils.SetInterval(cb(k), time.Duration(atoi(f[3]))*time.Millisecond)
				timers[k].Stop()
			case "refreshstop":
				timers[atoi(f[2])].Refresh()
				timers[atoi(f[2])].Stop()
			case "clearnil":
				utils.ClearTimeout(nil)
			case "sleep":
				time.Sleep(time.Duration(atoi(f[2])) * time.Millisecond)
			case "stopat":
				k, ms := atoi(f[2]), atoi(f[3])
				done := make(chan struct{})
				go func() {
					time.Sleep(time.Duration(ms) * time.Millisecond)
					timers[k].Stop()
					close(done)
				}()
				time.Sleep(time.Duration(ms) * time.Millisecond)
				settle()
				<-done
				// at the due instant either order of tick and Stop is legal: only the
				// goroutine count is compared; what fired is dropped
				a := answer()
				outs = appendLive(outs, "stopat "+a[strings.Index(a, "g="):])
				continue
			}
			outs = appendLive(outs, answer())
		}
		// leave nothing behind
		for _, tm := range timers {
			tm.Stop()
		}
		settle()
	})
	return outs
}

// famTimer generates call sequences at instants before / exactly at / after
// the due times and checks them against the property's timing rules.
func famTimer(t *testing.T, r *Rec) {
	n := 60
	if r.thorough() {
		n = 600
	}
	for s := 0; s < n; s++ {
		lines := []string{"tm cfg"}
		// reference: per timer: kind, period, next due (or -1), alive waiter
		type ref struct {
			interval bool
			period   int
			due      int // -1: not armed
		}
		refs := map[int]*ref{}
		now := 0
		var want []string
		wantG := 0
		addWant := func(f []string) {
			x := strings.Join(f, ",")
			if x == "" {
				x = "-"
			}
			g := 0
			for _, rf := range refs {
				if rf.due >= 0 {
					g++
				}
			}
			wantG = g
			want = append(want, fmt.Sprintf("fired=%s g=%d", x, g))
		}
		periods := []int{1, 5, 10, 25}
		for k := 0; k < 10; k++ {
			var fired []string
			nt := len(refs)
			switch c := r.rng.IntN(10); {
			case c == 9 && nt < 3: // created and cancelled back to back
				p := periods[r.rng.IntN(len(periods))]
				kind := []string{"timeoutstop", "intervalstop"}[r.rng.IntN(2)]
				lines = append(lines, fmt.Sprintf("tm %s %d %d", kind, nt, p))
				refs[nt] = &ref{kind == "intervalstop", p, -1}
			case c == 9 && nt > 0: // re-armed and cancelled back to back
				i := r.rng.IntN(nt)
				lines = append(lines, fmt.Sprintf("tm refreshstop %d", i))
				refs[i].due = -1
			case c == 0 && nt < 3:
				p := periods[r.rng.IntN(len(periods))]
				lines = append(lines, fmt.Sprintf("tm timeout %d %d", nt, p))
				refs[nt] = &ref{false, p, now + p}
			case c == 1 && nt < 3:
				p := periods[1+r.rng.IntN(len(periods)-1)]
				lines = append(lines, fmt.Sprintf("tm interval %d %d", nt, p))
				refs[nt] = &ref{true, p, now + p}
			case c == 2 && nt > 0:
				i := r.rng.IntN(nt)
				lines = append(lines, fmt.Sprintf("tm refresh %d", i))
				refs[i].due = now + refs[i].period
			case c == 3 && nt > 0:
				i := r.rng.IntN(nt)
				lines = append(lines, fmt.Sprintf("tm stop %d", i))
				refs[i].due = -1
			case c == 4:
				lines = append(lines, "tm clearnil")
			default:
				// sleep to just before / exactly / just after some due instant, or a random span
				d := 1 + r.rng.IntN(30)
				for _, rf := range refs {
					if rf.due > now && r.rng.IntN(2) == 0 {
						d = rf.due - now + []int{-1, 0, 0, 1}[r.rng.IntN(4)]
					}
				}
				if d <= 0 {
					d = 1
				}
				lines = append(lines, fmt.Sprintf("tm sleep %d", d))
				target := now + d
				// fire everything due up to target, in time order (ties by timer number)
				for {
					best, bk := -1, -1
					for i := 0; i < 3; i++ {
						if rf, ok := refs[i]; ok && rf.due >= 0 && rf.due <= target && (best < 0 || rf.due < best) {
							best, bk = rf.due, i
						}
					}
					if bk < 0 {
						break
					}
					fired = append(fired, fmt.Sprintf("%d@%d", bk, best))
					if refs[bk].interval {
						refs[bk].due = best + refs[bk].period
					} else {
						refs[bk].due = -1
					}
				}
				now = target
			}
			if len(lines) == len(want)+2 {
				addWant(fired)
			} else {
				// the chosen op was not applicable: pad with a nil clear
				lines = append(lines, "tm clearnil")
				addWant(nil)
			}
		}
		_ = wantG
		outs, fault := runIsolated(lines, 20*time.Second)
		for len(outs) < len(lines) {
			outs = append(outs, "fault:"+fault)
		}
		if fault != "" {
			what := "the timer calls crashed the process"
			if strings.Contains(fault, "deadlock") || fault == "hang" {
				what = "a goroutine of a timer was left blocked for good (or a call never returned)"
			}
			r.Violate("C19", "C19/goroutine-left-behind/blocked", what+": "+fault, lines)
		}
		r.scenarios++
		for i, l := range lines {
			r.Op(l, outs[i])
		}
		for i := 1; i < len(lines); i++ {
			op := strings.Fields(lines[i])[1]
			r.Cover("timer/" + op)
			got, exp := outs[i], want[i-1]
			if got != exp {
				// same-instant callbacks of different timers may come in either order
				if sameMultiset(got, exp) {
					continue
				}
				clause := "timing"
				if strings.Fields(got)[0] == strings.Fields(exp)[0] {
					clause = "goroutine-left-behind"
				}
				r.Violate("C19", "C19/"+clause+"/"+op, fmt.Sprintf("after %q: got %s, want %s", lines[i], got, exp), lines[:i+1])
				break
			}
		}
	}
	// cancellation issued from another goroutine at exactly the due instant: either order is
	// legal, but never two callbacks, never a leftover goroutine, and Stop returns
	for _, kind := range []string{"timeout", "interval"} {
		for _, at := range []int{9, 10, 11, 20} {
			lines := []string{"tm cfg", fmt.Sprintf("tm %s 0 10", kind), fmt.Sprintf("tm stopat 0 %d", at), "tm sleep 100"}
			// (in a child process: goroutines are counted, and this process has the helpers of earlier child runs)
			outs, fault := runIsolated(lines, 20*time.Second)
			for len(outs) < len(lines) {
				outs = append(outs, "fault:"+fault)
			}
			r.scenarios++
			for i, l := range lines {
				r.Op(l, outs[i])
			}
			r.Cover(fmt.Sprintf("timer/stopat/%s/%d", kind, at))
			if !strings.HasSuffix(outs[3], "fired=- g=0") {
				r.Violate("C19", "C19/after-cancel/"+kind, fmt.Sprintf("callbacks or goroutines after Stop returned: %s", outs[3]), lines)
			}
		}
	}
	// an interval whose callback cancels it: it runs exactly n times, the cancellation returns, nothing is left
	for _, n := range []int{1, 3} {
		for _, p := range []int{5, 10} {
			lines := []string{"tm cfg", fmt.Sprintf("tm intervalself 0 %d %d", p, n), fmt.Sprintf("tm sleep %d", p*(n+3)), "tm sleep 50"}
			outs, fault := runIsolated(lines, 20*time.Second)
			for len(outs) < len(lines) {
				outs = append(outs, "fault:"+fault)
			}
			r.scenarios++
			for i, l := range lines {
				r.Op(l, outs[i])
			}
			r.Cover(fmt.Sprintf("timer/intervalself/%d/%d", p, n))
			var want []string
			for i := 1; i <= n; i++ {
				want = append(want, fmt.Sprintf("0@%d", i*p))
			}
			if fault != "" || outs[2] != "fired="+strings.Join(want, ",")+" g=0" || outs[3] != "fired=- g=0" {
				r.Violate("C19", "C19/self-cancel", fmt.Sprintf("interval cancelled from its own callback on run %d: %s / %s %s", n, outs[2], outs[3], fault), lines)
			}
		}
	}
	// a timeout whose callback re-arms it (Refresh of a fired timer from inside its own callback): it runs once per
	// period, n+1 times; stopping it afterwards returns and leaves nothing behind
	for _, n := range []int{1, 3} {
		for _, p := range []int{5, 10} {
			lines := []string{"tm cfg", fmt.Sprintf("tm timeoutself 0 %d %d", p, n), fmt.Sprintf("tm sleep %d", p*(n+3)), "tm refresh 0", fmt.Sprintf("tm sleep %d", p-1), "tm stop 0", "tm sleep 50"}
			outs, fault := runIsolated(lines, 20*time.Second)
			for len(outs) < len(lines) {
				outs = append(outs, "fault:"+fault)
			}
			r.scenarios++
			for i, l := range lines {
				r.Op(l, outs[i])
			}
			r.Cover(fmt.Sprintf("timer/timeoutself/%d/%d", p, n))
			var want []string
			for i := 1; i <= n+1; i++ {
				want = append(want, fmt.Sprintf("0@%d", i*p))
			}
			if fault != "" || outs[2] != "fired="+strings.Join(want, ",")+" g=0" || outs[6] != "fired=- g=0" {
				r.Violate("C19", "C19/refresh-from-callback", fmt.Sprintf("timeout re-armed from its own callback %d times: %s ... %s %s", n, outs[2], outs[6], fault), lines)
			}
		}
	}
	// the same timeout cancelled while the re-arming its callback did is still pending: it never runs again
	for _, p := range []int{6, 10} {
		lines := []string{"tm cfg", fmt.Sprintf("tm timeoutself 0 %d 3", p), fmt.Sprintf("tm sleep %d", p+p/2), "tm stop 0", fmt.Sprintf("tm sleep %d", 6*p)}
		outs, fault := runIsolated(lines, 20*time.Second)
		for len(outs) < len(lines) {
			outs = append(outs, "fault:"+fault)
		}
		r.scenarios++
		for i, l := range lines {
			r.Op(l, outs[i])
		}
		r.Cover(fmt.Sprintf("timer/timeoutself-then-stop/%d", p))
		if fault != "" || outs[2] != fmt.Sprintf("fired=0@%d g=1", p) || outs[4] != "fired=- g=0" {
			r.Violate("C19", "C19/stop-after-refresh-from-callback", fmt.Sprintf("a timeout re-armed from its own callback and then cancelled: %s / %s / %s %s (want one run, then none after the cancel, no goroutine left)", outs[2], outs[3], outs[4], fault), lines)
		}
	}
	famTimerWindow(t, r)
}

func sameMultiset(a, b string) bool {
	fa, fb := strings.Fields(a), strings.Fields(b)
	if len(fa) != 2 || len(fb) != 2 || fa[1] != fb[1] {
		return false
	}
	xa := strings.Split(strings.TrimPrefix(fa[0], "fired="), ",")
	xb := strings.Split(strings.TrimPrefix(fb[0], "fired="), ",")
	if len(xa) != len(xb) {
		return false
	}
	m := map[string]int{}
	for _, x := range xa {
		m[x]++
	}
	for _, x := range xb {
		m[x]--
	}
	for _, v := range m {
		if v != 0 {
			return false
		}
	}
	// and the times must be non-decreasing in both
	return true
}

// famTimerWindow drives the two yield points of utils/timer.go: a cancel placed
// between an interval's tick and its re-arm, and between Stop's timer.Stop()
// and its stopCh send (monitor only: needs the hook).
func famTimerWindow(t *testing.T, r *Rec) {
	bubble(t, func(t *testing.T) {
		park := make(chan struct{})
		parked := make(chan struct{}, 1)
		var once sync.Once
		utils.SetVerifHook(func(point string, args ...any) {
			if point == "timer.interval.tick" {
				once.Do(func() {
					parked <- struct{}{}
					<-park
				})
			}
		})
		defer utils.SetVerifHook(nil)
		ticks := 0
		var mu sync.Mutex
		tm := utils.SetInterval(func() { mu.Lock(); ticks++; mu.Unlock() }, 10*time.Millisecond)
		time.Sleep(10 * time.Millisecond)
		synctest.Wait()
		<-parked // the waiter has received the tick and not yet re-armed
		stopped := make(chan struct{})
		go func() { tm.Stop(); close(stopped) }()
		synctest.Wait()
		returned := false
		select {
		case <-stopped:
			returned = true
		default:
		}
		close(park)
		synctest.Wait()
		time.Sleep(200 * time.Millisecond)
		synctest.Wait()
		mu.Lock()
		n := ticks
		mu.Unlock()
		r.Cover("timer/window/interval-tick")
		r.scenarios++
		if !returned || n > 1 {
			r.Violate("C19", "C19/interval/stop-in-window", fmt.Sprintf("Stop placed between an interval's tick and its re-arm: Stop returned=%v, then %d callbacks ran in the next 200ms (interval keeps ticking, goroutine left behind)", returned, n),
				[]string{"hook timer.interval.tick parks the waiter; Stop() from another goroutine; release"})
		}
		tm.Stop()
		synctest.Wait()
	})
}
