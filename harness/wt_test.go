package harness

import (
	"bytes"
	"encoding/binary"
	"errors"
	"fmt"
	"io"
	"net"
	"reflect"
	"strings"
	"testing"
	"time"

	"github.com/zishang520/engine.io/v2/webtransport"
	wtgo "github.com/zishang520/webtransport-go"
)

// ---- in-memory stream --------------------------------------------------

var errStream = errors.New("verif: injected stream error")

// memStream implements webtransport-go's Stream over byte slices. Reads hand
// out at most frag[i] bytes per call (cycling), then the tail condition.
type memStream struct {
	wtgo.Stream // nil: any other method would panic (none is reached)
	in          []byte
	frags       []int
	fi          int
	tailFail    bool
	eofWithLast bool // the last bytes come together with io.EOF, as the io.Reader contract allows (a QUIC FIN with data)
	transientAt int  // >0: one read error after this many bytes, then the stream goes on
	delivered   int
	tripped     bool
	out         bytes.Buffer
	writes      int
	wfailAfter  int // >0: the write that crosses this many accepted bytes is cut there and fails, once; later writes succeed
	wtripped    bool
}

func (m *memStream) Read(p []byte) (int, error) {
	if m.transientAt > 0 && !m.tripped && m.delivered >= m.transientAt {
		m.tripped = true
		return 0, errStream
	}
	if len(m.in) == 0 {
		if m.tailFail {
			return 0, errStream
		}
		return 0, io.EOF
	}
	n := len(p)
	if len(m.frags) > 0 {
		if f := m.frags[m.fi%len(m.frags)]; f > 0 && f < n {
			n = f
		}
		m.fi++
	}
	if n > len(m.in) {
		n = len(m.in)
	}
	if m.transientAt > 0 && !m.tripped && m.delivered+n > m.transientAt {
		n = m.transientAt - m.delivered
	}
	copy(p, m.in[:n])
	m.in = m.in[n:]
	m.delivered += n
	if m.eofWithLast && len(m.in) == 0 && !m.tailFail {
		return n, io.EOF
	}
	return n, nil
}
func (m *memStream) Write(p []byte) (int, error) {
	m.writes++
	if m.wfailAfter > 0 && !m.wtripped && m.out.Len()+len(p) > m.wfailAfter {
		m.wtripped = true
		n := m.wfailAfter - m.out.Len()
		m.out.Write(p[:n])
		return n, errStream
	}
	return m.out.Write(p)
}
func (m *memStream) SetWriteDeadline(time.Time) error { return nil }
func (m *memStream) SetReadDeadline(time.Time) error  { return nil }
func (m *memStream) SetDeadline(time.Time) error      { return nil }
func (m *memStream) Close() error                     { return nil }
func (m *memStream) CancelRead(wtgo.StreamErrorCode)  {}
func (m *memStream) CancelWrite(wtgo.StreamErrorCode) {}

type shimSession struct {
	codes []int
	fail  bool
}

func (s *shimSession) CloseWithError(code wtgo.SessionErrorCode, msg string) error {
	s.codes = append(s.codes, int(code))
	if s.fail {
		return errors.New("verif: close failed")
	}
	return nil
}
func (s *shimSession) RemoteAddr() net.Addr { return &net.TCPAddr{IP: net.IPv4(127, 0, 0, 1), Port: 1} }
func (s *shimSession) LocalAddr() net.Addr  { return &net.TCPAddr{IP: net.IPv4(127, 0, 0, 1), Port: 2} }

// simplePool is a LIFO buffer pool (sync.Pool drops items at GC: not replayable).
type simplePool struct{ items []any }

func (p *simplePool) Get() any {
	if n := len(p.items); n > 0 {
		x := p.items[n-1]
		p.items = p.items[:n-1]
		return x
	}
	return nil
}

// Put: what is handed back belongs to the pool, which may do anything with it at once (a pool shared with other
// connections, a pool that scrubs): this one overwrites every byte slice it is given.
func (p *simplePool) Put(x any) {
	if v := reflect.ValueOf(x); v.Kind() == reflect.Struct {
		for i := 0; i < v.NumField(); i++ {
			if f := v.Field(i); f.Kind() == reflect.Slice && f.Type().Elem().Kind() == reflect.Uint8 {
				b := f.Bytes()
				b = b[:cap(b)]
				for k := range b {
					b[k] = 0xAA
				}
			}
		}
	}
	p.items = append(p.items, x)
}

// chunkReader hands out its chunks one Read at a time.
// chunkReader hands out its chunks one Read at a time; with eofWithLast the final
// bytes come together with io.EOF, as the io.Reader contract allows.
type chunkReader struct {
	chunks      [][]byte
	eofWithLast bool
}

func (c *chunkReader) Read(p []byte) (int, error) {
	for len(c.chunks) > 0 && len(c.chunks[0]) == 0 {
		c.chunks = c.chunks[1:]
	}
	if len(c.chunks) == 0 {
		return 0, io.EOF
	}
	n := copy(p, c.chunks[0])
	c.chunks[0] = c.chunks[0][n:]
	if c.eofWithLast && len(c.chunks) == 1 && len(c.chunks[0]) == 0 {
		c.chunks = nil
		return n, io.EOF
	}
	return n, nil
}

func errClass(err error) string {
	var ce *webtransport.CloseError
	switch {
	case err == nil:
		return "-"
	case err == io.EOF:
		return "eof"
	case errors.As(err, &ce) && ce.Code == webtransport.CloseAbnormalClosure:
		return "uEOF"
	case err == webtransport.ErrReadLimit:
		return "limit"
	case err == errStream:
		return "stream"
	case strings.Contains(err.Error(), "close failed"):
		return "closefail"
	}
	return "other:" + err.Error()
}

func kindOf(mt int) string {
	if mt == webtransport.BinaryMessage {
		return "b"
	}
	return "t"
}
func mtOf(k string) int {
	if k == "b" {
		return webtransport.BinaryMessage
	}
	return webtransport.TextMessage
}

// ---- operations on a writer connection --------------------------------

type wconn struct {
	c      *webtransport.Conn
	s      *memStream
	server bool
}

func newW(server bool, wbuf int, pool bool) *wconn {
	s := &memStream{}
	var bp webtransport.BufferPool
	if pool {
		bp = &simplePool{}
	}
	return &wconn{webtransport.NewConn(nil, s, server, 0, wbuf, bp, nil, nil), s, server}
}

func splitBy(data []byte, sizes []int) [][]byte {
	var out [][]byte
	for _, k := range sizes {
		if k > len(data) {
			k = len(data)
		}
		out = append(out, data[:k])
		data = data[k:]
	}
	if len(data) > 0 {
		out = append(out, data)
	}
	return out
}

// write performs one message write through the named API and returns the
// bytes that reached the stream (and a panic text, if any).
func (w *wconn) write(api, kind string, data []byte, chunks []int) (wire []byte, fault string) {
	before := w.s.out.Len()
	defer func() {
		if p := recover(); p != nil {
			fault = fmt.Sprint("panic:", p)
		}
		wire = append([]byte(nil), w.s.out.Bytes()[before:]...)
	}()
	mt := mtOf(kind)
	var err error
	switch api {
	case "msg":
		err = w.c.WriteMessage(mt, data)
	case "prepared":
		var pm *webtransport.PreparedMessage
		pm, err = webtransport.NewPreparedMessage(mt, data)
		if err == nil {
			err = w.c.WritePreparedMessage(pm)
		}
	case "stream":
		var wr io.WriteCloser
		wr, err = w.c.NextWriter(mt)
		if err == nil {
			for _, ch := range splitBy(data, chunks) {
				if _, err = wr.Write(ch); err != nil {
					break
				}
			}
			if err == nil {
				err = wr.Close()
			}
		}
	case "readfrom", "readfromeof":
		var wr io.WriteCloser
		wr, err = w.c.NextWriter(mt)
		if err == nil {
			_, err = wr.(io.ReaderFrom).ReadFrom(&chunkReader{splitBy(data, chunks), api == "readfromeof"})
			if err == nil {
				err = wr.Close()
			}
		}
	}
	if err != nil {
		fault = "err:" + err.Error()
	}
	return
}

// ---- operations on a reader connection --------------------------------

type rconn struct {
	c       *webtransport.Conn
	s       *memStream
	sess    *shimSession
	cur     io.Reader
	prev    io.Reader
	last    []rmsg
	lastErr string
}

func newR(limit int64, tailFail, closeFails bool, in []byte, frags []int, rbuf int) *rconn {
	s := &memStream{in: append([]byte(nil), in...), frags: frags, tailFail: tailFail}
	c := webtransport.NewConn(nil, s, true, rbuf, 0, nil, nil, nil)
	sess := &shimSession{fail: closeFails}
	webtransport.SetVerifSession(c, sess)
	c.SetReadLimit(limit)
	return &rconn{c: c, s: s, sess: sess}
}

func (r *rconn) done() { webtransport.SetVerifSession(r.c, nil) }

func (r *rconn) next() (out string) {
	defer func() {
		if p := recover(); p != nil {
			out = "panic"
		}
	}()
	if r.cur != nil {
		r.prev = r.cur // the application may still hold the reader of the previous message
	}
	mt, rd, err := r.c.NextReader()
	if err != nil {
		r.cur = nil
		return "err " + errClass(err)
	}
	r.cur = rd
	return "reader " + kindOf(mt)
}

// readN collects up to n bytes of the current message by repeated Read calls.
func (r *rconn) readN(n int) string {
	if r.cur == nil {
		return "noreader"
	}
	buf := make([]byte, n)
	got := 0
	var err error
	for got < n && err == nil {
		var k int
		k, err = r.cur.Read(buf[got:])
		got += k
	}
	return "data " + hx(buf[:got]) + " " + errClass(err)
}

// readPrev reads from the reader of the previous message, which NextReader has retired: it must deliver nothing.
func (r *rconn) readPrev(n int) string {
	if r.prev == nil {
		return "noreader"
	}
	buf := make([]byte, n)
	k, err := r.prev.Read(buf)
	return "data " + hx(buf[:k]) + " " + errClass(err)
}

func (r *rconn) readAll() string {
	if r.cur == nil {
		return "noreader"
	}
	b, err := io.ReadAll(r.cur)
	return "data " + hx(b) + " " + errClass(err)
}

type rmsg struct {
	kind string
	data []byte
}

// readMsgs is the transport's loop: ReadMessage until the first failure.
func (r *rconn) readMsgs(max int) (msgs []rmsg, errc string) {
	defer func() {
		if p := recover(); p != nil {
			errc = "panic"
		}
	}()
	for i := 0; i < max; i++ {
		mt, p, err := r.c.ReadMessage()
		if err != nil {
			return msgs, errClass(err)
		}
		msgs = append(msgs, rmsg{kindOf(mt), p})
	}
	return msgs, "-"
}

func fmtMsgs(ms []rmsg, errc string) string {
	var sb strings.Builder
	sb.WriteString("msgs")
	for _, m := range ms {
		sb.WriteString(" " + m.kind + ":" + hx(m.data))
	}
	sb.WriteString(" err " + errc)
	return sb.String()
}

// ---- the independent spec (written from the protocol text) -------------

type lenForm int

const (
	formMin lenForm = iota
	form7
	form16
	form64
)

func specHeader(kind string, n int, f lenForm) []byte {
	b0 := byte(0)
	if kind == "b" {
		b0 = 0x80
	}
	if f == formMin {
		switch {
		case n < 126:
			f = form7
		case n < 65536:
			f = form16
		default:
			f = form64
		}
	}
	switch f {
	case form7:
		return []byte{b0 | byte(n)}
	case form16:
		h := []byte{b0 | 126, 0, 0}
		binary.BigEndian.PutUint16(h[1:], uint16(n))
		return h
	}
	h := make([]byte, 9)
	h[0] = b0 | 127
	binary.BigEndian.PutUint64(h[1:], uint64(n))
	return h
}

func specEncode(kind string, data []byte, f lenForm) []byte {
	return append(specHeader(kind, len(data), f), data...)
}

func lenClass(n, wbuf int) string {
	if wbuf == 0 {
		wbuf = 4096
	}
	switch {
	case n == 0:
		return "0"
	case n <= 125:
		return "<=125"
	case n <= 65535 && n <= wbuf:
		return "16bit,<=wbuf"
	case n <= 65535 && n <= 2*(wbuf+9):
		return "16bit,<=2(wbuf+9)"
	case n <= 65535:
		return "16bit,>2(wbuf+9)"
	case n <= wbuf:
		return "64bit,<=wbuf"
	case n <= 2*(wbuf+9):
		return "64bit,<=2(wbuf+9)"
	}
	return "64bit,>2(wbuf+9)"
}

// ---- op interpreter (the generators and --replay both go through it) ----

type wtInterp struct {
	prepared map[string]*webtransport.PreparedMessage
	w        *wconn
	r        *rconn
}

func (it *wtInterp) Exec(line string) string {
	t := strings.Fields(line)
	if len(t) < 2 || t[0] != "wt" {
		return "bad-op"
	}
	switch t[1] {
	case "wnew":
		it.w = newW(t[2] == "1", atoi(t[3]), t[4] == "1")
		return "ok"
	case "w":
		wire, fault := it.w.write(t[2], t[3], unhx(t[4]), unints(t[5]))
		out := "wire " + hx(wire)
		if fault != "" {
			out += " " + fault
		}
		return out
	case "prep": // wt prep <slot> <t|b> <hex>: build a prepared message and keep it for later
		if it.prepared == nil {
			it.prepared = map[string]*webtransport.PreparedMessage{}
		}
		pm, err := webtransport.NewPreparedMessage(mtOf(t[3]), unhx(t[4]))
		if err != nil {
			return "err:" + err.Error()
		}
		it.prepared[t[2]] = pm
		return "ok"
	case "wprep": // wt wprep <slot>: write a message prepared earlier (others may have been prepared or written since)
		pm := it.prepared[t[2]]
		if pm == nil {
			return "noprep"
		}
		before := it.w.s.out.Len()
		out := ""
		func() {
			defer func() {
				if p := recover(); p != nil {
					out = fmt.Sprint(" panic:", p)
				}
			}()
			if err := it.w.c.WritePreparedMessage(pm); err != nil {
				out = " err:" + err.Error()
			}
		}()
		return "wire " + hx(append([]byte(nil), it.w.s.out.Bytes()[before:]...)) + out
	case "rnew":
		if it.r != nil {
			it.r.done()
		}
		it.r = newR(int64(atoi(t[2])), t[3] == "f", t[4] == "1", unhx(t[5]), unints(t[6]), rbufOf(t))
		if strings.HasPrefix(t[3], "t") { // t<k>: a single read error after k bytes, the stream recovers
			it.r.s.transientAt = atoi(t[3][1:])
		}
		it.r.s.eofWithLast = t[3] == "E" // E: a clean end like e, the last bytes arriving together with io.EOF
		return "ok"
	case "next":
		return it.r.next()
	case "nextn":
		return it.r.nextN(atoi(t[2]))
	case "read":
		return it.r.readN(atoi(t[2]))
	case "readall":
		return it.r.readAll()
	case "readprev":
		return it.r.readPrev(atoi(t[2]))
	case "rclose": // the caller closes the reader it holds (the transports do, with every reader), read to the end or not
		if c, ok := it.r.cur.(io.Closer); ok && it.r.cur != nil {
			c.Close()
		}
		return "ok"
	case "msgs":
		got, errc := it.r.readMsgs(len(it.r.s.in) + 3)
		it.r.last, it.r.lastErr = got, errc
		return fmtMsgs(got, errc)
	case "closes":
		return "closes " + ints(it.r.sess.codes)
	}
	return "bad-op"
}

func rbufOf(t []string) int {
	if len(t) > 7 {
		return atoi(t[7])
	}
	return 0
}

// ---- families -----------------------------------------------------------

func init() {
	families["wt-write"] = famWTWrite
	families["wt-read"] = famWTRead
	interpreters["wt"] = func() interface{ Exec(string) string } { return &wtInterp{} }
}

func boundaryLens(rng interface{ IntN(int) int }, wbuf int, thorough bool) []int {
	B := wbuf
	if B == 0 {
		B = 4096
	}
	centres := []int{0, 125, 126, 65535, 65536, B, 2 * B, 2 * (B + 9), B + 9, 4096, 8210}
	seen := map[int]bool{}
	var out []int
	for _, c := range centres {
		for d := -2; d <= 2; d++ {
			if n := c + d; n >= 0 && !seen[n] {
				seen[n] = true
				out = append(out, n)
			}
		}
	}
	extra := 6
	if thorough {
		extra = 40
	}
	for i := 0; i < extra; i++ {
		out = append(out, rng.IntN(200000))
		out = append(out, rng.IntN(300))
	}
	return out
}

// famWTWrite: every write path x length classes x buffer sizes x pool x
// chunkings, in sequences on one connection (buffer reuse). Emits the wire
// bytes for correspondence with the Lean model; monitors C14 (wire = spec
// encoding, one frame) and C13 (the peer reads back the same messages).
func famWTWrite(t *testing.T, r *Rec) {
	writeFaults(r)
	wbufs := []int{0, 16, 1, 300}
	if r.thorough() {
		wbufs = append(wbufs, 4096, 70000, 127, 65527)
	}
	apis := []string{"msg", "stream", "readfrom", "prepared", "readfromeof"}
	hows := []string{"whole", "one", "random"}
	for _, wbuf := range wbufs {
		for _, server := range []bool{true, false} {
			for _, pool := range []bool{false, true} {
				lens := boundaryLens(r.rng, wbuf, r.thorough())
				for len(lens) > 0 {
					k := 1 + r.rng.IntN(5)
					if k > len(lens) {
						k = len(lens)
					}
					seq := lens[:k]
					lens = lens[k:]
					r.scenarios++
					it := &wtInterp{}
					var replay []string
					do := func(op string) string {
						out := it.Exec(op)
						r.Op(op, out)
						replay = append(replay, op)
						return out
					}
					do(fmt.Sprintf("wt wnew %s %d %s", b01(server), wbuf, b01(pool)))
					var sent []rmsg
					for _, n := range seq {
						api := apis[r.rng.IntN(len(apis))]
						kind := []string{"t", "b"}[r.rng.IntN(2)]
						data := payload(r.rng, n)
						var chunks []int
						if api == "stream" || api == "readfrom" || api == "readfromeof" {
							chunks = chunking(r.rng, n, hows[r.rng.IntN(len(hows))])
						}
						out := do(fmt.Sprintf("wt w %s %s %s %s", api, kind, hx(data), ints(chunks)))
						sent = append(sent, rmsg{kind, data})
						r.Cover(fmt.Sprintf("%s/%s/srv=%s/pool=%s/%s/chunks=%d", api, kind, b01(server), b01(pool), lenClass(n, wbuf), min(len(chunks), 3)))
						// C14 monitor: exactly one frame in the Engine.IO format
						if want := "wire " + hx(specEncode(kind, data, formMin)); out != want {
							r.Violate("C14", sigf("C14/encoder/%s/srv=%s/%s", api, b01(server), lenClass(n, wbuf)),
								fmt.Sprintf("wire bytes of a %d-byte message differ from one spec frame: %.80s", n, out), replay)
							// the same fact read as C01: a conformant WebTransport client does not receive this message intact
							r.Violate("C01", sigf("C01/webtransport/wire/%s/srv=%s/%s", api, b01(server), lenClass(n, wbuf)),
								fmt.Sprintf("a %d-byte message written to a WebTransport connection is not one Engine.IO frame on the wire: %.80s", n, out), replay)
						}
					}
					// prepared messages that wait while others are prepared and written (quick: one scenario in three)
					if r.rng.IntN(3) == 0 || r.thorough() {
						type pm struct {
							kind string
							data []byte
						}
						var pend []pm
						for i := 0; i < 2+r.rng.IntN(2); i++ {
							n := []int{0, 3, 10, 125, 126, 300, 4096, 4097}[r.rng.IntN(8)]
							m := pm{[]string{"t", "b"}[r.rng.IntN(2)], payload(r.rng, n)}
							pend = append(pend, m)
							do(fmt.Sprintf("wt prep %d %s %s", i, m.kind, hx(m.data)))
						}
						if r.rng.IntN(2) == 0 {
							d := payload(r.rng, 7)
							do(fmt.Sprintf("wt w msg b %s -", hx(d)))
							sent = append(sent, rmsg{"b", d})
						}
						for i, m := range pend {
							out := do(fmt.Sprintf("wt wprep %d", i))
							sent = append(sent, rmsg{m.kind, m.data})
							r.Cover(fmt.Sprintf("prepared-later/%s/srv=%s/%s", m.kind, b01(server), lenClass(len(m.data), wbuf)))
							if want := "wire " + hx(specEncode(m.kind, m.data, formMin)); out != want {
								r.Violate("C14", sigf("C14/encoder/prepared-later/srv=%s/%s", b01(server), lenClass(len(m.data), wbuf)),
									fmt.Sprintf("a prepared %d-byte message written after other messages were prepared is not its own frame on the wire: %.80s", len(m.data), out), replay)
							}
						}
					}
					// C13 monitor: the peer reads exactly the messages written
					frags := chunking(r.rng, 64, "random")
					rbuf := []int{0, 16, 64}[r.rng.IntN(3)]
					do(fmt.Sprintf("wt rnew 0 e 0 %s %s %d", hx(it.w.s.out.Bytes()), ints(frags), rbuf))
					do("wt msgs")
					got, errc := it.r.last, it.r.lastErr
					it.r.done()
					okRT := len(got) == len(sent) && errc == "uEOF"
					for i := 0; okRT && i < len(sent); i++ {
						okRT = got[i].kind == sent[i].kind && bytes.Equal(got[i].data, sent[i].data)
					}
					if !okRT {
						cls := ""
						for _, n := range seq {
							cls += lenClass(n, wbuf) + ";"
						}
						r.Violate("C13", sigf("C13/roundtrip/srv=%s/pool=%s/%s", b01(server), b01(pool), cls),
							fmt.Sprintf("peer read %d messages (end %s) for %d written", len(got), errc, len(sent)), replay)
						r.Violate("C01", sigf("C01/webtransport/roundtrip/srv=%s/pool=%s/%s", b01(server), b01(pool), cls),
							fmt.Sprintf("WebTransport peer read %d messages (end %s) for %d written", len(got), errc, len(sent)), replay)
					}
					if len(r.samples) < 3 && len(seq) > 1 && len(strings.Join(replay, ";")) < 2000 {
						r.Sample(strings.Join(replay, " ; "))
					}
				}
			}
		}
	}
}

// writeFaults (monitor only, no model): a stream write that fails after accepting part of a frame leaves a torn frame
// on the wire; whatever the application does next on that connection, nothing more may be written (a decoder would
// take the next frame's header for payload) and every write API has to report the failure.
func writeFaults(r *Rec) {
	type step struct {
		name string
		run  func(w *wconn, pm *webtransport.PreparedMessage) error
	}
	steps := []step{
		{"WritePreparedMessage", func(w *wconn, pm *webtransport.PreparedMessage) error { return w.c.WritePreparedMessage(pm) }},
		{"WriteMessage", func(w *wconn, pm *webtransport.PreparedMessage) error {
			return w.c.WriteMessage(webtransport.TextMessage, []byte("after"))
		}},
		{"NextWriter+Close", func(w *wconn, pm *webtransport.PreparedMessage) error {
			wr, err := w.c.NextWriter(webtransport.BinaryMessage)
			if err != nil {
				return err
			}
			wr.Write([]byte("after"))
			return wr.Close()
		}},
	}
	for _, server := range []bool{true, false} {
		for _, n := range []int{3, 200, 70000} {
			frame := specEncode("b", make([]byte, n), formMin)
			for _, cut := range []int{1, 2, len(frame) / 2, len(frame) - 1} {
				if cut <= 0 || cut >= len(frame) {
					continue
				}
				for first := range steps {
					w := newW(server, 0, false)
					w.s.wfailAfter = cut
					pm, _ := webtransport.NewPreparedMessage(webtransport.TextMessage, []byte("prepared"))
					replay := []string{fmt.Sprintf("Go: conn(server=%v) over a stream whose write is cut after %d of %d bytes of the first frame; WriteMessage(binary, %d bytes); then %s first, then the other write APIs", server, cut, len(frame), n, steps[first].name)}
					r.scenarios++
					r.Cover(fmt.Sprintf("write-fault/server=%v/n=%d/then=%s", server, n, steps[first].name))
					err0 := func() (err error) {
						defer func() {
							if p := recover(); p != nil {
								err = fmt.Errorf("panic: %v", p)
							}
						}()
						return w.c.WriteMessage(webtransport.BinaryMessage, make([]byte, n))
					}()
					if err0 == nil {
						r.Violate("C14", "C14/write-fault/not-reported", "a failed stream write was not reported by WriteMessage", replay)
						continue
					}
					torn := w.s.out.Len()
					for k := 0; k < len(steps); k++ {
						st := steps[(first+k)%len(steps)]
						var err error
						func() {
							defer func() {
								if p := recover(); p != nil {
									err = fmt.Errorf("panic: %v", p)
								}
							}()
							err = st.run(w, pm)
						}()
						if w.s.out.Len() != torn {
							for _, pr := range []string{"C14", "C13"} {
								r.Violate(pr, pr+"/write-fault/frame-after-torn-frame/"+st.name, fmt.Sprintf("%s wrote %d more bytes right behind a torn frame (the stream is no longer a sequence of frames)", st.name, w.s.out.Len()-torn), replay)
							}
							break
						}
						if err == nil {
							r.Violate("C14", "C14/write-fault/later-write-succeeds/"+st.name, st.name+" reported success on a connection whose stream write had failed", replay)
						}
					}
				}
			}
		}
	}
}

// validStream builds a stream of spec frames with chosen length forms.
func validStream(r *Rec, count int, maxLen int) (stream []byte, msgs []rmsg, bounds []int) {
	for i := 0; i < count; i++ {
		n := 0
		switch r.rng.IntN(6) {
		case 0:
			n = 0
		case 1:
			n = r.rng.IntN(126)
		case 2:
			n = 124 + r.rng.IntN(5)
		case 3:
			n = r.rng.IntN(maxLen + 1)
		case 4:
			n = 65534 + r.rng.IntN(4)
		case 5:
			n = r.rng.IntN(1000)
		}
		if n > maxLen {
			n = maxLen
		}
		kind := []string{"t", "b"}[r.rng.IntN(2)]
		data := payload(r.rng, n)
		f := formMin
		switch r.rng.IntN(4) {
		case 1:
			if n < 65536 {
				f = form16
			}
		case 2:
			f = form64
		}
		stream = append(stream, specEncode(kind, data, f)...)
		msgs = append(msgs, rmsg{kind, data})
		bounds = append(bounds, len(stream))
	}
	return
}

// famWTRead: byte streams (valid with all length forms, truncated at every
// offset, mutated, random, huge declared lengths) x limits x consumption
// patterns x stream errors. Emits results for correspondence; monitors C14
// (decoder accepts) and C15.
func famWTRead(t *testing.T, r *Rec) {
	type scen struct {
		name   string
		stream []byte
		msgs   []rmsg // expected complete messages when valid & unlimited
		valid  bool
		bounds []int
		limit  int64 // 0: drawn at random below; > 0: this read limit
	}
	var scens []scen
	// the read limit at its boundaries, in every length form a frame of that size can take: limit, limit + 1 and
	// the largest frame of the one-byte form, after an in-limit frame
	for _, lim := range []int64{1, 100, 124, 125, 126, 300} {
		for _, n := range []int{int(lim), int(lim) + 1, 125, 126} {
			for _, f := range []lenForm{formMin, form16, form64} {
				small := payload(r.rng, 1)
				data := payload(r.rng, n)
				st := append(specEncode("t", small, formMin), specEncode("b", data, f)...)
				scens = append(scens, scen{"boundary", st, []rmsg{{"t", small}, {"b", data}}, true, []int{len(st) - len(specEncode("b", data, f)), len(st)}, lim})
			}
		}
	}
	nValid := 12
	if r.thorough() {
		nValid = 80
	}
	for i := 0; i < nValid; i++ {
		maxLen := []int{300, 70000, 5000}[i%3]
		s, m, b := validStream(r, 1+r.rng.IntN(4), maxLen)
		scens = append(scens, scen{"valid", s, m, true, b, 0})
	}
	// truncations at every offset of small valid streams
	nTr := 3
	if r.thorough() {
		nTr = 12
	}
	for i := 0; i < nTr; i++ {
		s, m, b := validStream(r, 1+r.rng.IntN(3), 140)
		for cut := 0; cut < len(s); cut++ {
			if len(s) > 400 && cut%7 != 0 && cut > 20 {
				continue
			}
			scens = append(scens, scen{"trunc", append([]byte(nil), s[:cut]...), m, false, b, 0})
		}
	}
	// huge / hostile declared lengths
	for _, v := range []uint64{1 << 63, 1<<63 - 1, 1<<64 - 1, 1 << 62, 1 << 32, 65536, 0, 125} {
		for _, kb := range []byte{0x00, 0x80} {
			h := make([]byte, 9)
			h[0] = kb | 127
			binary.BigEndian.PutUint64(h[1:], v)
			scens = append(scens, scen{"huge", append(h, payload(r.rng, 40)...), nil, false, nil, 0})
		}
	}
	// random and mutated streams
	nRnd := 40
	if r.thorough() {
		nRnd = 400
	}
	for i := 0; i < nRnd; i++ {
		if i%2 == 0 {
			scens = append(scens, scen{"random", payload(r.rng, r.rng.IntN(600)), nil, false, nil, 0})
		} else {
			s, _, _ := validStream(r, 1+r.rng.IntN(3), 300)
			for k := 0; k < 1+r.rng.IntN(3) && len(s) > 0; k++ {
				s[r.rng.IntN(len(s))] ^= byte(1 << r.rng.IntN(8))
			}
			scens = append(scens, scen{"mutated", s, nil, false, nil, 0})
		}
	}

	limits := []int64{0, 1, 100, 125, 126, 300, 4096}
	for _, sc := range scens {
		tailFail := r.rng.IntN(4) == 0
		limit := limits[r.rng.IntN(len(limits))]
		if sc.limit > 0 {
			limit = sc.limit
		}
		if sc.name == "valid" && r.rng.IntN(2) == 0 {
			limit = 0
			tailFail = false
		}
		closeFails := limit > 0 && r.rng.IntN(5) == 0
		frags := chunking(r.rng, 40, []string{"whole", "one", "random"}[r.rng.IntN(3)])
		rbuf := []int{0, 16, 32}[r.rng.IntN(3)]
		tl := "e"
		if tailFail {
			tl = "f"
		}
		r.scenarios++
		it := &wtInterp{}
		var replay []string
		do := func(op string) string {
			out := it.Exec(op)
			r.Op(op, out)
			replay = append(replay, op)
			return out
		}
		do(fmt.Sprintf("wt rnew %d %s %s %s %s %d", limit, tl, b01(closeFails), hx(sc.stream), ints(frags), rbuf))
		pattern := r.rng.IntN(3) // 0: message loop, 1: explicit next/read ops, 2: next + partial + abandon
		if sc.name == "valid" && limit == 0 && r.rng.IntN(3) > 0 {
			pattern = 0
		}
		rc := it.r
		r.Cover(fmt.Sprintf("%s/limit=%d/tail=%s/pattern=%d", sc.name, min(int(limit), 2), tl, pattern))
		switch pattern {
		case 0:
			do("wt msgs")
			got, errc := rc.last, rc.lastErr
			monitorRead(r, sc.name, sc.valid, sc.stream, sc.msgs, sc.bounds, limit, tailFail, got, errc, rc, replay)
			for i := 0; i < 2; i++ {
				o := do("wt next")
				if errc != "-" && errc != "panic" && o != "err "+errc {
					r.Violate("C15", "C15/sticky/"+sc.name, "later NextReader reported "+o+" after "+errc, replay)
				}
			}
		default:
			steps := 2 + r.rng.IntN(6)
			failed := ""
			for i := 0; i < steps; i++ {
				o := do("wt next")
				if strings.HasPrefix(o, "err ") {
					if failed != "" && o != failed {
						r.Violate("C15", "C15/sticky/"+sc.name, "error changed from "+failed+" to "+o, replay)
					}
					failed = o
					continue
				}
				if o == "panic" {
					r.Violate("C15", "C15/panic/"+sc.name, "NextReader panicked", replay)
					break
				}
				if failed != "" {
					r.Violate("C15", "C15/sticky/"+sc.name, "reader handed out after "+failed, replay)
				}
				if pattern == 1 || r.rng.IntN(2) == 0 {
					n := 1 + r.rng.IntN(200)
					if r.rng.IntN(4) == 0 {
						n = 5000 + r.rng.IntN(70000) // a destination larger than any buffer: bufio hands the stream's own (n, err) through
					}
					o := do(fmt.Sprintf("wt read %d", n))
					if f := strings.Fields(o); len(f) == 3 && len(unhx(f[1])) > n {
						r.Violate("C15", "C15/bounded/"+sc.name, "Read returned more than asked", replay)
					}
				}
				if pattern == 1 {
					do("wt readall")
				}
				if r.rng.IntN(3) == 0 {
					do("wt rclose") // whether or not the message was read to the end
				}
			}
		}
		do("wt closes")
		rc.done()
		if len(r.samples) < 6 && len(sc.stream) < 60 {
			r.Sample(strings.Join(replay, " ; "))
		}
	}
	// the last frame's bytes arriving together with io.EOF (a QUIC FIN with data), read with a destination larger than
	// the connection's buffer, so that bufio hands the stream's own (n, io.EOF) through: the frame is complete and is
	// delivered as such
	for _, rbuf := range []int{16, 32, 0} {
		size := rbuf
		if size == 0 {
			size = 4096
		}
		for _, n := range []int{size, size + 1, 3*size + 7} {
			for _, lead := range []bool{false, true} {
				payload := bytes_repeat('f', n)
				var stream []byte
				if lead {
					stream = append(stream, specEncode("t", []byte("lead"), formMin)...)
				}
				stream = append(stream, specEncode("b", payload, formMin)...)
				it := &wtInterp{}
				var replay []string
				do := func(op string) string {
					out := it.Exec(op)
					r.Op(op, out)
					replay = append(replay, op)
					return out
				}
				r.scenarios++
				do(fmt.Sprintf("wt rnew 0 E 0 %s - %d", hx(stream), rbuf))
				if lead {
					do("wt next")
					do("wt readall")
				}
				do("wt next")
				o := do("wt read 200000")
				r.Cover(fmt.Sprintf("eof-with-last-bytes/rbuf=%d/lead=%s", rbuf, b01(lead)))
				// the bytes, and a clean end of the message: an error here makes ReadMessage / io.ReadAll drop a complete message
				if f := strings.Fields(o); len(f) != 3 || f[0] != "data" || f[1] != hx(payload) || f[2] != "eof" {
					r.Violate("C14", "C14/decoder/eof-with-last-bytes", fmt.Sprintf("a complete %d-byte frame whose last bytes arrive together with io.EOF was not delivered as a complete message (bytes, then a clean end): %.40s ... %s", n, o, o[max(0, len(o)-8):]), replay)
					r.Violate("C15", "C15/content/eof-with-last-bytes", fmt.Sprintf("a complete %d-byte frame whose last bytes arrive together with io.EOF was not delivered as a complete message (bytes, then a clean end): %.40s ... %s", n, o, o[max(0, len(o)-8):]), replay)
				}
				it.r.done()
			}
		}
	}
	// huge declared lengths read through ReadMessage without a limit: an error (truncated), never a panic
	for _, v := range []uint64{1 << 62, 1<<63 - 1, 1<<63 - 4096} {
		for _, kb := range []byte{0x00, 0x80} {
			h := make([]byte, 9)
			h[0] = kb | 127
			binary.BigEndian.PutUint64(h[1:], v)
			stream := append(h, payload(r.rng, 30)...)
			it := &wtInterp{}
			r.scenarios++
			r.Cover("huge-readmessage-unlimited")
			op1 := fmt.Sprintf("wt rnew 0 e 0 %s - 0", hx(stream))
			r.Op(op1, it.Exec(op1))
			o := it.Exec("wt msgs")
			r.Op("wt msgs", o)
			if strings.HasSuffix(o, "err panic") || o == "panic" {
				r.Violate("C15", "C15/panic/huge-readmessage", fmt.Sprintf("ReadMessage panicked on a frame declaring %d bytes", v), []string{op1, "wt msgs"})
			}
			it.r.done()
		}
	}
	// an abandoned message whose reader the caller closes, then the next message: the unread rest is skipped once
	for _, n1 := range []int{10, 130} {
		m1, m2, m3 := payload(r.rng, n1), payload(r.rng, 7), payload(r.rng, 9)
		stream := append(append(specEncode("t", m1, formMin), specEncode("b", m2, formMin)...), specEncode("t", m3, form16)...)
		it := &wtInterp{}
		r.scenarios++
		r.Cover("abandon-close-next")
		var replay []string
		do := func(op string) string {
			out := it.Exec(op)
			r.Op(op, out)
			replay = append(replay, op)
			return out
		}
		do(fmt.Sprintf("wt rnew 0 e 0 %s - 0", hx(stream)))
		do("wt next")
		do("wt read 3")
		do("wt rclose")
		do("wt rclose")
		if o := do("wt next"); o != "reader b" {
			r.Violate("C14", "C14/decoder/after-abandoned-and-closed-reader", "the frame after an abandoned message whose reader was closed by the caller was read as: "+o, replay)
		}
		if o := do("wt readall"); o != "data "+hx(m2)+" -" && o != "data "+hx(m2)+" eof" {
			r.Violate("C14", "C14/decoder/after-abandoned-and-closed-reader/content", "the message after an abandoned one reads "+o+", want "+hx(m2), replay)
		}
		do("wt closes")
		it.r.done()
	}
	// a read error in the middle of a payload, on a stream that would go on afterwards: the failure is sticky for
	// the message reader and for the connection
	for k := 0; k < 12; k++ {
		n1, n2 := 20+r.rng.IntN(60), 5+r.rng.IntN(20)
		m1, m2 := payload(r.rng, n1), payload(r.rng, n2)
		stream := append(specEncode("t", m1, formMin), specEncode("b", m2, formMin)...)
		at := 2 + r.rng.IntN(n1-4) // inside the first payload
		rbuf := []int{0, 16, 32}[r.rng.IntN(3)]
		r.scenarios++
		it := &wtInterp{}
		var replay []string
		do := func(op string) string {
			out := it.Exec(op)
			r.Op(op, out)
			replay = append(replay, op)
			return out
		}
		do(fmt.Sprintf("wt rnew 0 t%d 0 %s - %d", at, hx(stream), rbuf))
		r.Cover(fmt.Sprintf("transient/rbuf=%d/abandon=%s", rbuf, b01(k%2 == 1)))
		do("wt next")
		if k%2 == 1 {
			// the application abandons the message after two bytes: the error then hits while the rest of the
			// message is skipped on the way to the next one (NextReader, or the Close it performs on the old reader)
			do("wt read 2")
			e1 := do("wt next")
			if !strings.HasPrefix(e1, "err ") {
				r.Violate("C15", "C15/transient-not-reported/while-skipping", "a stream error while the unread rest of a message was skipped was not reported: NextReader said "+e1, replay)
			}
			for i := 0; i < 2; i++ {
				if o := do("wt next"); o != e1 {
					r.Violate("C15", "C15/sticky/next-after-transient-error-while-skipping", "NextReader reported "+o+" after "+e1, replay)
				}
			}
			do("wt closes")
			it.r.done()
			continue
		}
		first := do(fmt.Sprintf("wt read %d", n1+10))
		ff := strings.Fields(first)
		if len(ff) == 3 && ff[2] != "-" {
			for i := 0; i < 2; i++ {
				o := do("wt read 50")
				if of := strings.Fields(o); len(of) != 3 || of[2] != ff[2] || (of[1] != "-" && of[1] != "") {
					r.Violate("C15", "C15/sticky/read-after-transient-error", "Read after a failed Read of the same message reported "+o+" (first failure: "+first+")", replay)
				}
			}
			for i := 0; i < 2; i++ {
				if o := do("wt next"); o != "err "+ff[2] {
					r.Violate("C15", "C15/sticky/next-after-transient-error", "NextReader after a failed Read reported "+o+" (failure: "+ff[2]+")", replay)
				}
			}
		} else {
			r.Violate("C15", "C15/transient-not-reported", "a stream error inside a payload was not reported: "+first, replay)
		}
		it.r.done()
	}
	// a reader that NextReader has retired delivers nothing, whatever follows on the stream (partial read of
	// message k, NextReader, then a Read on the old reader; then the new message is still intact)
	for _, firstLen := range []int{5, 0, 130} {
		for _, partial := range []int{0, 2} {
			it := &wtInterp{}
			var replay []string
			do := func(op string) string {
				out := it.Exec(op)
				r.Op(op, out)
				replay = append(replay, op)
				return out
			}
			m1, m2 := payload(r.rng, firstLen), payload(r.rng, 14)
			stream := append(specEncode("t", m1, formMin), specEncode("b", m2, formMin)...)
			stream = append(stream, specEncode("t", []byte("end"), formMin)...)
			do(fmt.Sprintf("wt rnew 0 e 0 %s - 0", hx(stream)))
			r.Cover(fmt.Sprintf("stale-reader/first=%d/partial=%d", firstLen, partial))
			do("wt next")
			if partial > 0 && firstLen >= partial {
				do(fmt.Sprintf("wt read %d", partial))
			}
			do("wt next")
			if o := do("wt readprev 64"); o != "data - eof" {
				r.Violate("C15", "C15/retired-reader-delivers", "the reader of a message, read after NextReader had moved on, delivered "+o+" (want nothing and EOF)", replay)
			}
			if o := do("wt readall"); o != "data "+hx(m2)+" eof" && o != "data "+hx(m2)+" -" {
				r.Violate("C15", "C15/message-after-retired-reader", "the message after a retired reader was read as "+o, replay)
			}
			do("wt next")
			do("wt readprev 64")
			do("wt readall")
			it.r.done()
		}
	}
	// the documented guard: the 1000th failing NextReader panics, none before
	{
		it := &wtInterp{}
		for _, op := range []string{"wt rnew 0 e 0 - - 0", "wt nextn 998", "wt next", "wt next"} {
			r.Op(op, it.Exec(op))
		}
		if r.outs[len(r.outs)-2] != "err uEOF" || r.outs[len(r.outs)-1] != "panic" {
			r.Violate("C15", "C15/guard", "guard did not trip exactly at the 1000th failing NextReader: "+r.outs[len(r.outs)-2]+", "+r.outs[len(r.outs)-1], r.ops[len(r.ops)-4:])
		}
		it.r.done()
	}
}

func (r *rconn) nextN(n int) string {
	last := ""
	for i := 0; i < n; i++ {
		last = r.next()
	}
	return last
}

// monitorRead checks C14 (decoder) and C15 clauses on one message-loop run,
// using only the stream bytes and the property text.
func monitorRead(r *Rec, name string, valid bool, stream []byte, want []rmsg, bounds []int, limit int64, tailFail bool,
	got []rmsg, errc string, rc *rconn, replay []string) {
	if errc == "panic" {
		r.Violate("C15", "C15/panic/"+name, "reader panicked", replay)
		return
	}
	// independent parse of the stream
	type fr struct {
		kind     string
		declared uint64
		payload  []byte
		complete bool
		headerOK bool
	}
	var frames []fr
	p := stream
	for len(p) > 0 {
		f := fr{kind: "t"}
		if p[0]&0x80 != 0 {
			f.kind = "b"
		}
		l := uint64(p[0] & 0x7f)
		p = p[1:]
		switch l {
		case 126:
			if len(p) < 2 {
				frames = append(frames, f)
				p = nil
				continue
			}
			l = uint64(binary.BigEndian.Uint16(p))
			p = p[2:]
		case 127:
			if len(p) < 8 {
				frames = append(frames, f)
				p = nil
				continue
			}
			l = binary.BigEndian.Uint64(p)
			p = p[8:]
		}
		f.headerOK = true
		f.declared = l
		if uint64(len(p)) >= l {
			f.payload = p[:l]
			f.complete = true
			p = p[l:]
		} else {
			f.payload = p
			p = nil
		}
		frames = append(frames, f)
	}
	// every delivered message must be the next complete frame, within limit
	for i, g := range got {
		if i >= len(frames) || !frames[i].complete {
			r.Violate("C15", "C15/truncation/"+name, fmt.Sprintf("message %d delivered although the stream ends inside its frame", i), replay)
			return
		}
		f := frames[i]
		if uint64(len(g.data)) > f.declared {
			r.Violate("C15", "C15/bounded/"+name, "more payload than declared", replay)
		}
		if g.kind != f.kind || !bytes.Equal(g.data, f.payload) {
			r.Violate("C15", "C15/content/"+name, fmt.Sprintf("message %d differs from its frame", i), replay)
		}
		if limit > 0 && int64(len(g.data)) > limit {
			r.Violate("C15", "C15/limit/"+name, fmt.Sprintf("message of %d bytes delivered with limit %d", len(g.data), limit), replay)
			r.Violate("C10", "C10/webtransport-frame/delivered/"+name, fmt.Sprintf("a WebTransport message of %d bytes was delivered with a read limit of %d", len(g.data), limit), replay)
		}
	}
	// the first frame not delivered explains the error
	if len(got) < len(frames) {
		f := frames[len(got)]
		switch {
		case f.headerOK && f.declared >= 1<<63:
			if errc != "limit" {
				r.Violate("C15", "C15/msb-length/"+name, "length with MSB set reported as "+errc, replay)
			}
		case f.headerOK && limit > 0 && f.declared > uint64(limit):
			if errc != "limit" && errc != "closefail" {
				r.Violate("C15", "C15/limit/"+name, "oversized frame reported as "+errc, replay)
			}
			if len(rc.sess.codes) != 1 || rc.sess.codes[0] != webtransport.CloseMessageTooBig {
				r.Violate("C15", "C15/limit-close/"+name, fmt.Sprintf("session close codes %v", rc.sess.codes), replay)
				r.Violate("C10", "C10/webtransport-frame/not-terminated/"+name, fmt.Sprintf("an oversized WebTransport frame did not terminate its connection with 'message too big': close codes %v", rc.sess.codes), replay)
			}
		case !f.complete:
			wantErr := "uEOF"
			if tailFail {
				wantErr = "stream"
			}
			if errc != wantErr {
				r.Violate("C15", "C15/truncation/"+name, "stream ending inside a frame reported as "+errc+" (want "+wantErr+")", replay)
			}
		default:
			r.Violate("C14", "C14/decoder/"+name, "complete in-limit frame not delivered: "+errc, replay)
		}
	} else {
		wantErr := "uEOF"
		if tailFail {
			wantErr = "stream"
		}
		if errc != wantErr {
			r.Violate("C15", "C15/end/"+name, "end of stream reported as "+errc, replay)
		}
	}
	if valid && limit == 0 && !tailFail {
		ok := len(got) == len(want)
		for i := 0; ok && i < len(want); i++ {
			ok = got[i].kind == want[i].kind && bytes.Equal(got[i].data, want[i].data)
		}
		if !ok {
			r.Violate("C14", "C14/decoder/valid", fmt.Sprintf("valid stream of %d frames decoded to %d messages", len(want), len(got)), replay)
			r.Violate("C02", "C02/webtransport/decoder/valid", fmt.Sprintf("valid WebTransport stream of %d frames decoded to %d messages", len(want), len(got)), replay)
		}
	}
}
