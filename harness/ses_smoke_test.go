package harness

import (
	"fmt"
	"testing"
)

func init() {
	families["ses-smoke"] = func(t *testing.T, r *Rec) {
		lines := []string{
			"ses cfg 300 200 1000 100000 default 1 0 - 0 -",
			"ses hs polling 4 0 -",
			"ses send s0 t 6869 1 1",
			"ses poll s0",
			"ses send s0 b 0102 1 0",
			"ses post s0 t 1 34796f1e34ab",
			"ses poll s0",
			"ses adv 300",
			"ses poll s0",
			"ses post s0 t 1 33",
			"ses adv 300",
			"ses adv 250",
			"ses hs websocket 4 0 -",
			"ses frame 0 t 3468656c6c6f",
			"ses send s1 t 6f6b 1 1",
			"ses close s1 0",
			"ses obs",
		}
		outs := sesRun(t, lines)
		for i, l := range lines {
			r.Op(l, outs[i])
			fmt.Println(l, "\n   =>", outs[i])
		}
	}
}
