package harness

import (
	"bytes"
	"regexp"
	"encoding/base64"
	"fmt"
	"strconv"
	"strings"
	"unicode/utf16"
	"unicode/utf8"
)

// ---- parsing the canonical op answers ------------------------------------

type obsEvent struct {
	t    int
	who  string // s<k> | srv
	name string
	args []string
}

type obsResp struct {
	req            int
	status         int
	ct, ce, body   string
}

type obsOut struct {
	events []obsEvent
	resps  []obsResp
	dupes  []string
	frames map[int][]rmsg
	ended  map[int]string
	states map[int][3]string // ready state, transport, flags
	reg    string
	pend   string
	raw    string
}

var maskRe = regexp.MustCompile(`\{s(\d+)\}`)

// unmask turns the {s<k>} placeholders back into hex (of the text "sid<k>").
func unmask(h string) string {
	return maskRe.ReplaceAllStringFunc(h, func(m string) string { return hx([]byte("sid" + m[2:len(m)-1])) })
}

func parseObs(out string) obsOut {
	o := obsOut{frames: map[int][]rmsg{}, ended: map[int]string{}, states: map[int][3]string{}, raw: out}
	for _, tok := range strings.Fields(out) {
		p := strings.Split(tok, ":")
		switch p[0] {
		case "E":
			o.events = append(o.events, obsEvent{atoi(p[1]), p[2], p[3], p[4:]})
		case "R":
			o.resps = append(o.resps, obsResp{atoi(p[1]), atoi(p[2]), p[3], p[4], unmask(p[5])})
		case "R2":
			o.dupes = append(o.dupes, tok)
		case "F":
			o.frames[atoi(p[1])] = append(o.frames[atoi(p[1])], rmsg{p[2], unhx(unmask(p[3]))})
		case "X":
			o.ended[atoi(p[1])] = strings.Join(p[2:], ":")
		case "S":
			o.states[atoi(p[1])] = [3]string{p[2], p[3], p[4]}
		case "G":
			o.reg = strings.Join(p[1:], ":")
		case "P":
			o.pend = p[1]
		}
	}
	return o
}

// ---- an independent Engine.IO codec (written from the protocol description) ----

type epkt struct {
	typ  byte // '0'..'6'
	kind string
	data []byte
}

// decodeV4Payload: packets separated by 0x1e; 'b' + base64 is a binary message.
func decodeV4Payload(body []byte) ([]epkt, error) {
	var out []epkt
	if len(body) == 0 {
		return nil, nil
	}
	for _, part := range bytes.Split(body, []byte{0x1e}) {
		p, err := decodeV4Packet(part, "t")
		if err != nil {
			return out, err
		}
		out = append(out, p)
	}
	return out, nil
}

func decodeV4Packet(part []byte, frameKind string) (epkt, error) {
	if frameKind == "b" {
		return epkt{'4', "b", part}, nil
	}
	if len(part) == 0 {
		return epkt{}, fmt.Errorf("empty packet")
	}
	if part[0] == 'b' {
		d, err := base64.StdEncoding.DecodeString(string(part[1:]))
		if err != nil {
			return epkt{}, err
		}
		return epkt{'4', "b", d}, nil
	}
	if part[0] < '0' || part[0] > '6' {
		return epkt{}, fmt.Errorf("bad type %q", part[0])
	}
	return epkt{part[0], "t", part[1:]}, nil
}

func utf16Len(s []byte) int {
	n := 0
	for len(s) > 0 {
		r, sz := utf8.DecodeRune(s)
		n += len(utf16.Encode([]rune{r}))
		s = s[sz:]
	}
	return n
}

// decodeV3StringPayload: <utf16 length>:<packet> ...; "b<type><base64>" is binary.
func decodeV3StringPayload(body []byte) ([]epkt, error) {
	var out []epkt
	for len(body) > 0 {
		i := bytes.IndexByte(body, ':')
		if i < 0 {
			return out, fmt.Errorf("no length")
		}
		n, err := strconv.Atoi(string(body[:i]))
		if err != nil {
			return out, err
		}
		body = body[i+1:]
		j, units := 0, 0
		for units < n && j < len(body) {
			r, sz := utf8.DecodeRune(body[j:])
			units += len(utf16.Encode([]rune{r}))
			j += sz
		}
		pk := body[:j]
		body = body[j:]
		if len(pk) == 0 {
			continue
		}
		if pk[0] == 'b' {
			if len(pk) < 2 {
				return out, fmt.Errorf("short b packet")
			}
			d, err := base64.StdEncoding.DecodeString(string(pk[2:]))
			if err != nil {
				return out, err
			}
			out = append(out, epkt{pk[1], "b", d})
			continue
		}
		out = append(out, epkt{pk[0], "t", pk[1:]})
	}
	return out, nil
}

// decodeV3BinaryPayload: (0|1) <decimal digits as bytes> 0xff <data>
func decodeV3BinaryPayload(body []byte) ([]epkt, error) {
	var out []epkt
	for len(body) > 0 {
		isStr := body[0] == 0
		i := bytes.IndexByte(body, 0xff)
		if i < 0 {
			return out, fmt.Errorf("no length end")
		}
		n := 0
		if i > 12 {
			return out, fmt.Errorf("length too long")
		}
		for _, d := range body[1:i] {
			if d > 9 {
				return out, fmt.Errorf("bad length digit")
			}
			n = n*10 + int(d)
		}
		body = body[i+1:]
		if isStr {
			// n UTF-16 units of "utf8-encoded" (latin1-per-byte) text
			var dec []byte
			j, units := 0, 0
			for units < n && j < len(body) {
				r, sz := utf8.DecodeRune(body[j:])
				dec = append(dec, byte(r)) // each rune is one original byte
				units++
				j += sz
			}
			body = body[j:]
			if len(dec) == 0 {
				continue
			}
			out = append(out, epkt{dec[0], "t", dec[1:]})
		} else {
			if n > len(body) {
				return out, fmt.Errorf("short binary")
			}
			pk := body[:n]
			body = body[n:]
			if len(pk) == 0 {
				continue
			}
			out = append(out, epkt{pk[0] + '0', "b", pk[1:]})
		}
	}
	return out, nil
}

func encodeV4Payload(pk []epkt) []byte {
	var parts [][]byte
	for _, p := range pk {
		if p.kind == "b" {
			parts = append(parts, []byte("b"+base64.StdEncoding.EncodeToString(p.data)))
		} else {
			parts = append(parts, append([]byte{p.typ}, p.data...))
		}
	}
	return bytes.Join(parts, []byte{0x1e})
}

func encodeV3StringPayload(pk []epkt) []byte {
	var b bytes.Buffer
	for _, p := range pk {
		var e []byte
		if p.kind == "b" {
			e = []byte("b" + string(p.typ) + base64.StdEncoding.EncodeToString(p.data))
		} else {
			e = append([]byte{p.typ}, p.data...)
		}
		fmt.Fprintf(&b, "%d:%s", utf16Len(e), e)
	}
	return b.Bytes()
}

// ---- a conformant client's view of one session ------------------------------

type sesSpec struct {
	ord       int
	transport string // polling | websocket
	proto     int
	b64       bool
	conn      int // ws conn ordinal
	reqs      map[int]bool
}

func msgKey(kind string, data []byte) string { return kind + ":" + hx(data) }
