package harness

import (
	"bytes"
	"fmt"
	"io"
	"net/http"
	"net/url"
	"sort"
	"strconv"
	"strings"
	"sync"
	"testing"
	"time"

	"github.com/zishang520/engine.io-go-parser/packet"
	"github.com/zishang520/engine.io/v2/config"
	"github.com/zishang520/engine.io/v2/engine"
	"github.com/zishang520/engine.io/v2/transports"
	"github.com/zishang520/engine.io/v2/types"
	"github.com/zishang520/engine.io/v2/utils"
)

func init() {
	scenarioRunners["ses"] = sesRun
}

// sesWorld: a world plus the deterministic task scheduler: writer goroutines
// park at their begin hook and are released one at a time, oldest first, each
// time the bubble is quiescent ("input, then every spawned task to completion").
type sesWorld struct {
	*world
	parkMu         sync.Mutex
	parked         []chan struct{}
	evs            []string // events of the current op
	reqStart       []int    // per request: number of writes seen
	respLog        []string
	cbSeq          int
	reacts         map[string][]string // event name -> api calls to make from a listener ("send"/"close0"/"close1")
	reactCount     map[string]int
	listenerParked []chan struct{}
	hsReact        string // "flush" / "drain": a server-level listener drops the client of the session being handshaken, from inside that event
	inReact        int
	showCookie     bool
	jOf            map[string]string
	// windows: a goroutine reaching an armed yield point parks there until released
	armed     map[string]int
	winParked map[string][]chan struct{}
	windows   bool // the scenario uses windows: application calls run on their own goroutine
	// a pre-encoded frame is built once and handed to every Send that names it, the way a broadcast hands one
	// options object to all its recipients
	preOpts map[string]*packet.Options
	// a CORS policy that names this one origin (every request of the scenario then carries it)
	corsOrigin string
}

func (w *sesWorld) hook(point string, args ...any) {
	switch point {
	case "polling.send.begin", "ws.send.begin", "wt.send.begin":
		ch := make(chan struct{})
		w.parkMu.Lock()
		w.parked = append(w.parked, ch)
		w.parkMu.Unlock()
		<-ch
	default:
		w.parkMu.Lock()
		if w.armed[point] > 0 {
			w.armed[point]--
			ch := make(chan struct{})
			w.winParked[point] = append(w.winParked[point], ch)
			w.parkMu.Unlock()
			<-ch
			return
		}
		w.parkMu.Unlock()
	}
}

func (w *sesWorld) settle() {
	for {
		idle()
		w.parkMu.Lock()
		if len(w.parked) == 0 {
			w.parkMu.Unlock()
			return
		}
		ch := w.parked[0]
		w.parked = w.parked[1:]
		w.parkMu.Unlock()
		close(ch)
	}
}

func (w *sesWorld) ms() int64 { return w.now() / 1e6 }

func (w *sesWorld) e(format string, a ...any) {
	w.mu.Lock()
	w.evs = append(w.evs, fmt.Sprintf("E:%d:", w.ms())+fmt.Sprintf(format, a...))
	w.mu.Unlock()
}

func pktType(p *packet.Packet) string { return string(p.Type) }

// observe attaches the listeners that record a session's events.
func (w *sesWorld) observe(ord int, s engine.Socket) {
	tag := fmt.Sprintf("s%d", ord)
	fire := func(ev string) {
		for _, call := range w.reacts[ev] {
			if w.inReact > 3 || w.reactCount[ev] >= 2 {
				return // a listener that answers every event with a send would never let the session rest
			}
			w.reactCount[ev]++
			w.inReact++
			switch call {
			case "park": // once: the listener stays inside the event until "ses unpark"
				w.reacts[ev] = nil
				ch := make(chan struct{})
				w.parkMu.Lock()
				w.listenerParked = append(w.listenerParked, ch)
				w.parkMu.Unlock()
				<-ch
			case "send":
				s.Send(types.NewStringBufferString("re:"+ev), nil, nil)
			case "close0":
				s.Close(false)
			case "close1":
				s.Close(true)
			}
			w.inReact--
		}
	}
	s.On("packet", func(a ...any) { w.e("%s:packet:%s", tag, pktType(a[0].(*packet.Packet))); fire("packet") })
	s.On("packetCreate", func(a ...any) { w.e("%s:packetCreate:%s", tag, pktType(a[0].(*packet.Packet))); fire("packetCreate") })
	s.On("message", func(a ...any) {
		k, d := bufKind(a[0])
		w.e("%s:message:%s:%s", tag, k, hx(d))
		fire("message")
	})
	s.On("heartbeat", func(...any) { w.e("%s:heartbeat", tag); fire("heartbeat") })
	s.On("flush", func(a ...any) { w.e("%s:flush:%s", tag, pktList(a[0].([]*packet.Packet))); fire("flush") })
	s.On("drain", func(...any) { w.e("%s:drain", tag); fire("drain") })
	s.On("upgrading", func(...any) { w.e("%s:upgrading", tag); fire("upgrading") })
	s.On("upgrade", func(...any) { w.e("%s:upgrade", tag); fire("upgrade") })
	s.On("close", func(a ...any) {
		w.e("%s:close:%s:%s", tag, strings.ReplaceAll(a[0].(string), " ", "_"), s.ReadyState())
		fire("close")
	})
}

func pktList(ps []*packet.Packet) string {
	var xs []string
	for _, p := range ps {
		xs = append(xs, pktChar(p))
	}
	if len(xs) == 0 {
		return "-"
	}
	return strings.Join(xs, "")
}

func pktChar(p *packet.Packet) string {
	switch p.Type {
	case packet.OPEN:
		return "0"
	case packet.CLOSE:
		return "1"
	case packet.PING:
		return "2"
	case packet.PONG:
		return "3"
	case packet.MESSAGE:
		return "4"
	case packet.UPGRADE:
		return "5"
	case packet.NOOP:
		return "6"
	}
	return "?"
}

func ms(n string) time.Duration { return time.Duration(atoi(n)) * time.Millisecond }

// sesRun executes one session scenario. Every op answers with what became
// observable until the system was quiescent again:
//
//	events in order   E:<ms>:<who>:<name>[:args]
//	responses         R:<req>:<status>:<content-type>:<content-encoding>:<bodyhex>   (in request order)
//	frames per conn   F:<conn>:<kind>:<hex> / X:<conn>:<how it ended>                (in conn order)
//	states            S:<s>:<readyState>:<transport>:<upgrading><upgraded>  G:<registry ords>:<count>
func sesRun(t *testing.T, lines []string) []string {
	outs := make([]string, 0, len(lines))
	bubble(t, func(t *testing.T) {
		var w *sesWorld
		defer func() {
			if w != nil {
				utils.SetVerifHook(nil)
				w.parkMu.Lock()
				for _, ch := range w.parked {
					close(ch)
				}
				w.parked = nil
				for _, chs := range w.winParked {
					for _, ch := range chs {
						close(ch)
					}
				}
				w.winParked = map[string][]chan struct{}{}
				for _, ch := range w.listenerParked {
					close(ch)
				}
				w.listenerParked = nil
				w.parkMu.Unlock()
				w.teardown()
			}
		}()
		reqSeen := 0
		connClosed := map[int]bool{}
		for _, line := range lines {
			f := strings.Fields(line)
			noSettle := f[0] == "ses+"
			if f[1] == "cfg" {
				// ses cfg <I> <T> <U> <maxPayload> <transports|default> <upgrades> <eio3> <initialhex|-> <cookie> <thr|->
				opts := &config.ServerOptions{}
				opts.SetPingInterval(ms(f[2]))
				opts.SetPingTimeout(ms(f[3]))
				opts.SetUpgradeTimeout(ms(f[4]))
				opts.SetMaxHttpBufferSize(int64(atoi(f[5])))
				if f[6] != "default" {
					opts.SetTransports(types.NewSet(strings.Split(f[6], ",")...))
				}
				opts.SetAllowUpgrades(f[7] == "1")
				opts.SetAllowEIO3(f[8] == "1")
				switch {
				case f[9] == "-":
				case strings.HasPrefix(f[9], "r"): // a plain seekable reader instead of a buffer
					opts.SetInitialPacket(strings.NewReader(string(unhx(f[9][1:]))))
				case strings.HasPrefix(f[9], "R"):
					opts.SetInitialPacket(bytes.NewReader(unhx(f[9][1:])))
				default:
					opts.SetInitialPacket(types.NewStringBuffer(unhx(f[9])))
				}
				if f[10] == "1" {
					opts.SetCookie(&http.Cookie{})
				}
				if f[11] != "-" {
					opts.SetHttpCompression(&types.HttpCompression{Threshold: atoi(f[11])})
				}
				corsOrigin := ""
				if len(f) > 13 && strings.HasPrefix(f[13], "cors:") {
					corsOrigin = string(unhx(f[13][5:]))
					opts.SetCors(&types.Cors{Origin: []any{corsOrigin, "https://other.example"}, Credentials: true})
				}
				w = &sesWorld{world: newWorld(t, opts, nil), reacts: map[string][]string{}, reactCount: map[string]int{}, jOf: map[string]string{},
					armed: map[string]int{}, winParked: map[string][]chan struct{}{}}
				curSes = w
				w.corsOrigin = corsOrigin
				for _, extra := range f[12:] {
					if extra == "slowclose" {
						// an application middleware that watches the end of every request (logging, metrics) and may be slow:
						// its "close" listener runs before the transport's own; "ses react reqclose park" makes it wait for "ses unpark"
						ws := w
						w.srv.Use(func(ctx *types.HttpContext, next func(error)) {
							ctx.On("close", func(...any) {
								for _, call := range ws.reacts["reqclose"] {
									if call == "park" {
										ch := make(chan struct{})
										ws.parkMu.Lock()
										ws.listenerParked = append(ws.listenerParked, ch)
										ws.parkMu.Unlock()
										<-ch
									}
								}
							})
							next(nil)
						})
					}
				}
				utils.SetVerifHook(w.hook)
				w.srv.On("connection", func(a ...any) {
					s := a[0].(engine.Socket)
					ord := w.sockIdx[s.Id()]
					w.e("s%d:connection:%s:%s:%d", ord, s.ReadyState(), s.Transport().Name(), s.Protocol())
					w.observe(ord, s)
				})
				w.srv.On("flush", func(a ...any) {
					w.e("srv:flush:%s:%s", w.tagOf(a[0].(engine.Socket)), pktList(a[1].([]*packet.Packet)))
					w.duringHandshake("flush", a[0].(engine.Socket))
				})
				w.srv.On("drain", func(a ...any) {
					w.e("srv:drain:%s", w.tagOf(a[0].(engine.Socket)))
					w.duringHandshake("drain", a[0].(engine.Socket))
				})
				w.onWrite = func(i int) { w.e("req:write:%d", i) }
				if f[10] == "1" || (len(f) > 12 && f[12] == "hdr") {
					w.srv.On("initial_headers", func(a ...any) { w.e("srv:initial_headers:%d", w.reqIndex(a[1].(*types.HttpContext))) })
					w.srv.On("headers", func(a ...any) { w.e("srv:headers:%d", w.reqIndex(a[1].(*types.HttpContext))) })
					w.showCookie = true
				}
				w.srv.On("connection_error", func(a ...any) { w.e("srv:connection_error:%d", a[0].(*types.ErrorMessage).Code) })
				outs = appendLive(outs, "ok")
				continue
			}
			sess := func(tok string) engine.Socket { return w.sock(atoi(strings.TrimPrefix(tok, "s"))) }
			note := ""
			switch f[1] {
			case "arm": // ses arm <point>: the next goroutine reaching the yield point parks there
				w.parkMu.Lock()
				w.armed[f[2]]++
				w.windows = true
				w.parkMu.Unlock()
			case "release": // ses release <point>: the oldest goroutine parked there goes on
				w.parkMu.Lock()
				if chs := w.winParked[f[2]]; len(chs) > 0 {
					close(chs[0])
					w.winParked[f[2]] = chs[1:]
				}
				w.parkMu.Unlock()
			case "unpark": // ses unpark: listeners parked by a "park" reaction go on
				w.parkMu.Lock()
				for _, ch := range w.listenerParked {
					close(ch)
				}
				w.listenerParked = nil
				w.parkMu.Unlock()
			case "hsreact": // ses hsreact <flush|drain>: the peer of the next handshake goes away inside that server event of its open packet
				w.hsReact = f[2]
			case "react": // ses react <event> <send|close0|close1>
				w.reacts[f[2]] = append(w.reacts[f[2]], f[3])
			case "hs": // ses hs <transport> <eio> <b64> <j|->
				q := "transport=" + f[2]
				if f[3] != "-" {
					q += "&EIO=" + f[3]
				}
				if f[4] == "1" {
					q += "&b64=1"
				}
				if f[5] != "-" {
					q += "&j=" + url.QueryEscape(string(unhx(f[5])))
				}
				if f[5] != "-" {
					w.jOf[fmt.Sprintf("s%d", len(w.socks))] = string(unhx(f[5]))
				}
				if f[2] == "polling" {
					w.request("GET", "/engine.io/?"+q, nil, nil, false, false)
				} else if f[2] == "webtransport" {
					w.wtDial("0")
				} else {
					w.wsDial("/engine.io/?"+q, nil, false)
				}
			case "poll": // ses poll <s> [Accept-Encoding hex]
				hdr := http.Header{}
				if len(f) > 3 && f[3] != "-" && f[3] != "initial" {
					hdr.Set("Accept-Encoding", string(unhx(f[3])))
				}
				u := w.sesURL(sess(f[2]))
				if j, ok := w.jOf[f[2]]; ok {
					u += "&j=" + url.QueryEscape(j)
				}
				if w.corsOrigin != "" {
					hdr.Set("Origin", w.corsOrigin)
				}
				w.request("GET", u, hdr, nil, false, false)
			case "post": // ses post <s> <t|b> <declared 0|1> <hex>
				hdr := http.Header{"Content-Type": {"text/plain;charset=UTF-8"}}
				if f[3] == "b" {
					hdr = http.Header{"Content-Type": {"application/octet-stream"}}
				}
				body := unhx(f[5])
				if body == nil {
					body = []byte{}
				}
				if strings.HasPrefix(f[4], "d") { // d<n>: Content-Length says n, the body yields what it yields
					declareLen = atoi(f[4][1:])
				}
				w.request("POST", w.sesURL(sess(f[2])), hdr, body, f[4] != "0", false)
				declareLen = -1
			case "postslow": // ses postslow <s> <hex>: the upload stalls after the first byte until "ses unpark"
				gate := make(chan struct{})
				w.parkMu.Lock()
				w.listenerParked = append(w.listenerParked, gate)
				w.parkMu.Unlock()
				wrapBody = func(r io.Reader) io.Reader { return &stallReader{r: r, gate: gate} }
				w.request("POST", w.sesURL(sess(f[2])), http.Header{"Content-Type": {"text/plain;charset=UTF-8"}}, unhx(f[3]), false, false)
				wrapBody = nil
			case "sendslow": // ses sendslow <s> <hex>: the message data is a reader that stalls after one byte until "ses unpark"
				gate := make(chan struct{})
				w.parkMu.Lock()
				w.listenerParked = append(w.listenerParked, gate)
				w.parkMu.Unlock()
				sess(f[2]).Send(&stallReader{r: bytes.NewReader(unhx(f[3])), gate: gate}, nil, nil)
			case "postj": // ses postj <s> <hex payload>: a JSONP client submits the payload as form field d
				esc := strings.ReplaceAll(string(unhx(f[3])), "\\n", "\\\\n")
				esc = strings.ReplaceAll(esc, "\n", "\\n")
				body := []byte("d=" + url.QueryEscape(esc))
				hdr := http.Header{"Content-Type": {"application/x-www-form-urlencoded"}}
				s0 := sess(f[2])
				w.request("POST", w.sesURL(s0)+"&j="+url.QueryEscape(w.jOf[f[2]]), hdr, body, true, false)
			case "badupgrade": // ses badupgrade <s|-> <version|nokey>: an upgrade request the WebSocket handshake itself refuses
				q := "transport=websocket&EIO=4"
				if f[2] != "-" {
					q += "&sid=" + sess(f[2]).Id()
				}
				hdr := http.Header{"Connection": {"Upgrade"}, "Upgrade": {"websocket"}, "Sec-Websocket-Version": {"13"}, "Sec-Websocket-Key": {"dGhlIHNhbXBsZSBub25jZQ=="}}
				if f[3] == "nokey" {
					hdr.Del("Sec-Websocket-Key")
				} else {
					hdr.Set("Sec-Websocket-Version", f[3])
				}
				w.request("GET", "/engine.io/?"+q, hdr, nil, false, false)
			case "abort": // ses abort <r>
				w.reqs[atoi(f[2])].abort()
			case "ws": // ses ws <s|-> <eio> <b64>: a websocket handshake or an upgrade candidate
				q := "transport=websocket&EIO=" + f[3]
				if f[4] == "1" {
					q += "&b64=1"
				}
				if f[2] != "-" {
					q += "&sid=" + sess(f[2]).Id()
				}
				w.wsDial("/engine.io/?"+q, nil, false)
			case "wt": // ses wt <s|->: a WebTransport session, new (-) or an upgrade candidate naming a session
				first := "0"
				if f[2] != "-" {
					first = `0{"sid":"` + sess(f[2]).Id() + `"}`
				}
				w.wtDial(first)
			case "wtbig": // ses wtbig <n>: a WebTransport session whose first frame is an open packet padded to n bytes
				if len(f) > 3 && f[3] == "announced" {
					// a text frame header in the 64-bit length form announcing n MiB, then a single byte of it
					n := uint64(atoi(f[2])) << 20
					hdr := []byte{127, byte(n >> 56), byte(n >> 48), byte(n >> 40), byte(n >> 32), byte(n >> 24), byte(n >> 16), byte(n >> 8), byte(n), '0'}
					w.wtDialRaw("", hdr)
				} else {
					w.wtDial("0" + strings.Repeat(" ", atoi(f[2])-1))
				}
			case "frame": // ses frame <c> <t|b> <hex>
				c := w.conns[atoi(f[2])]
				if c.conn != nil || c.wtConn != nil {
					if err := c.send(f[3], unhx(f[4])); err != nil {
						note = "" // a failed client write is the client's business
					}
				}
			case "stall": // ses stall <c>: the client stops reading
				w.conns[atoi(f[2])].stall()
			case "drop": // ses drop <c> [<status code>: a close frame instead of a cut connection]
				if len(f) > 3 {
					w.conns[atoi(f[2])].closeFrame(atoi(f[3]))
				} else {
					w.conns[atoi(f[2])].drop()
				}
			case "send": // ses send <s> <t|b> <hex> <compress> <cb> <pre|->
				var data interface{ Read([]byte) (int, error) }
				if f[3] == "b" {
					data = types.NewBytesBuffer(unhx(f[4]))
				} else {
					data = types.NewStringBuffer(unhx(f[4]))
				}
				opt := &packet.Options{Compress: f[5] == "1"}
				if len(f) > 7 && f[7] != "-" {
					if w.preOpts == nil {
						w.preOpts = map[string]*packet.Options{}
					}
					if shared := w.preOpts[f[5]+f[7]]; shared != nil {
						opt = shared
					} else {
						if f[7][0] == 't' {
							opt.WsPreEncodedFrame = types.NewStringBuffer(unhx(f[7][1:]))
						} else {
							opt.WsPreEncodedFrame = types.NewBytesBuffer(unhx(f[7][1:]))
						}
						w.preOpts[f[5]+f[7]] = opt
					}
				}
				var cb engine.SendCallback
				if f[6] == "1" {
					w.cbSeq++
					id := w.cbSeq
					tag := f[2]
					so := sess(f[2])
					cb = func(transports.Transport) {
						w.e("%s:cb:%d", tag, id)
						for _, call := range w.reacts["cb"] {
							if w.reactCount["cb"] >= 2 {
								break
							}
							w.reactCount["cb"]++
							switch call {
							case "sendcbpark": // send again, with a callback of its own, and be slow to return
								w.reacts["cb"] = nil
								w.cbSeq++
								id2 := w.cbSeq
								so.Send(types.NewStringBufferString("re:cb"), nil, func(transports.Transport) { w.e("%s:cb:%d", tag, id2) })
								ch := make(chan struct{})
								w.parkMu.Lock()
								w.listenerParked = append(w.listenerParked, ch)
								w.parkMu.Unlock()
								<-ch
							case "send":
								so.Send(types.NewStringBufferString("re:cb"), nil, nil)
							case "close0":
								so.Close(false)
							case "close1":
								so.Close(true)
							}
						}
					}
				}
				if w.windows {
					so := sess(f[2])
					go so.Send(data, opt, cb)
				} else {
					sess(f[2]).Send(data, opt, cb)
				}
			case "close": // ses close <s> <discard>
				if w.windows {
					so := sess(f[2])
					go so.Close(f[3] == "1")
				} else {
					sess(f[2]).Close(f[3] == "1")
				}
			case "shutdown":
				if w.windows {
					go w.srv.Close()
				} else {
					w.srv.Close()
				}
			case "adv":
				time.Sleep(ms(f[2]))
			case "obs":
			}
			if noSettle {
				outs = appendLive(outs, "-")
				continue
			}
			w.settle()
			// ---- collect the answer
			w.mu.Lock()
			parts := append([]string{}, w.evs...)
			w.evs = nil
			w.mu.Unlock()
			if f[1] == "shutdown" {
				// server.Close ranges over a map: canonical order by session, then by request
				sort.SliceStable(parts, func(i, j int) bool { return shutdownKey(parts[i]) < shutdownKey(parts[j]) })
			}
			if f[1] == "adv" {
				// timers of different sessions due at the same instant fire in an order the runtime
				// picks: canonical order by instant, then by session (each session's own order kept)
				sort.SliceStable(parts, func(i, j int) bool { return advKey(parts[i]) < advKey(parts[j]) })
			}
			for i := 0; i < len(w.reqs); i++ {
				h := w.reqs[i]
				if h.panicked != nil && !h.panicReported {
					h.panicReported = true
					parts = append(parts, fmt.Sprintf("PANIC:%d", i))
				}
				if h.writes > 0 && !h.reported {
					h.reported = true
					bodyBytes := h.rec.Body.Bytes()
					ce := strOr(h.rec.Header().Get("Content-Encoding"), "-")
					if ce != "-" {
						dec, derr := decodeBody(ce, bodyBytes)
						if derr != nil {
							ce += "!undecodable"
						} else {
							bodyBytes = dec
						}
					}
					if cl := h.rec.Header().Get("Content-Length"); cl != "" && cl != fmt.Sprint(h.rec.Body.Len()) {
						ce += "!content-length=" + cl + "-for-" + fmt.Sprint(h.rec.Body.Len())
					}
					parts = append(parts, fmt.Sprintf("R:%d:%d:%s:%s:%s", i, h.rec.Code, ctShort(h.rec.Header().Get("Content-Type")),
						ce, w.maskSids(hx(bodyBytes))))
					if h.body != nil {
						parts = append(parts, fmt.Sprintf("B:%d:%d", i, h.body.consumed))
					}
					if w.showCookie {
						parts = append(parts, fmt.Sprintf("H:%d:%s", i, w.maskSids(hx([]byte(h.rec.Header().Get("Set-Cookie"))))))
					}
					if w.corsOrigin != "" && h.req != nil && h.req.Header.Get("Origin") == w.corsOrigin {
						// the policy names the request's origin out of a list: the answer depends on the request
						vary := strings.ToLower(strings.Join(h.rec.Header().Values("Vary"), ","))
						if h.rec.Header().Get("Access-Control-Allow-Origin") != w.corsOrigin || !strings.Contains(vary, "origin") {
							parts = append(parts, fmt.Sprintf("CORS!:%d:acao=%s:vary=%s", i, hx([]byte(h.rec.Header().Get("Access-Control-Allow-Origin"))), hx([]byte(vary))))
						}
					}
					if h.writes > 1 {
						parts = append(parts, fmt.Sprintf("R2:%d:%d", i, h.writes))
					}
				}
			}
			_ = reqSeen
			for i, c := range w.conns {
				for _, fr := range c.take() {
					parts = append(parts, fmt.Sprintf("F:%d:%s:%s", i, fr.kind, w.maskSids(hx(fr.data))))
				}
				c.mu.Lock()
				cl := c.closed
				if c.conn == nil && c.wtConn == nil && cl == "" {
					cl = fmt.Sprintf("refused:%d", c.status)
				}
				c.mu.Unlock()
				if cl != "" && !connClosed[i] {
					connClosed[i] = true
					parts = append(parts, fmt.Sprintf("X:%d:%s", i, cl))
				}
			}
			for i, s := range w.socks {
				parts = append(parts, fmt.Sprintf("S:%d:%s:%s:%s%s", i, s.ReadyState(), s.Transport().Name(), b01(s.Upgrading()), b01(s.Upgraded())))
			}
			parts = append(parts, "G:"+w.regShort())
			var pend []string
			for i, h := range w.reqs {
				if !h.finished() {
					pend = append(pend, fmt.Sprint(i))
				}
			}
			parts = append(parts, "P:"+strOr(strings.Join(pend, ","), "-"))
			outs = appendLive(outs, strings.Join(parts, " ")+note)
		}
	})
	if lastBubbleLeak != "" && len(outs) > 0 {
		outs[len(outs)-1] += " LEAK" // goroutines of the server outlived the scenario's teardown (40 s of silence after everything was closed)
	}
	return outs
}

// duringHandshake: an application listener of a server-level event is running
// inside the handshake (the session is not announced yet) when the peer goes
// away; the listener returns once the session has noticed.
func (w *sesWorld) duringHandshake(ev string, s engine.Socket) {
	if w.hsReact != ev {
		return
	}
	w.mu.Lock()
	_, announced := w.sockIdx[s.Id()]
	w.mu.Unlock()
	if announced {
		return
	}
	w.hsReact = ""
	if s.Transport().Name() == "polling" {
		if len(w.reqs) > 0 {
			w.reqs[len(w.reqs)-1].cancel()
		}
	} else if len(w.conns) > 0 && w.conns[len(w.conns)-1].cc != nil {
		w.conns[len(w.conns)-1].cc.Close()
	}
	for i := 0; i < 200 && s.ReadyState() != "closed"; i++ {
		time.Sleep(time.Millisecond)
	}
}

// tagOf names a session by ordinal; a session that has not been announced yet
// (its open packet is flushed before the connection event) is the next ordinal.
func (w *sesWorld) tagOf(s engine.Socket) string {
	w.mu.Lock()
	defer w.mu.Unlock()
	if o, ok := w.sockIdx[s.Id()]; ok {
		return fmt.Sprintf("s%d", o)
	}
	return fmt.Sprintf("s%d", len(w.socks))
}

// maskSids replaces every session id inside a hex string by {s<k>}.
func (w *sesWorld) maskSids(h string) string {
	w.mu.Lock()
	defer w.mu.Unlock()
	for id, o := range w.sockIdx {
		h = strings.ReplaceAll(h, hx([]byte(id)), fmt.Sprintf("{s%d}", o))
	}
	// the upgrades list comes out of a Go map: canonical order
	h = strings.ReplaceAll(h, hx([]byte(`["webtransport","websocket"]`)), hx([]byte(`["websocket","webtransport"]`)))
	return h
}

// reqIndex finds the ordinal of the request a context belongs to.
func (w *sesWorld) reqIndex(ctx *types.HttpContext) int {
	for i, h := range w.reqs {
		if h.req == ctx.Request() {
			return i
		}
	}
	return -1
}

// shutdownKey orders the events of a server shutdown: session events by
// session, then the writes of the released requests by request.
func shutdownKey(tok string) int {
	p := strings.Split(tok, ":")
	if len(p) < 4 {
		return 1 << 30
	}
	num := func(s string) int {
		n, err := strconv.Atoi(strings.TrimPrefix(s, "s"))
		if err != nil {
			return 0
		}
		return n
	}
	switch {
	case strings.HasPrefix(p[2], "s") && p[2] != "srv":
		return num(p[2])
	case p[2] == "srv" && len(p) > 4 && strings.HasPrefix(p[4], "s"):
		return num(p[4])
	case p[2] == "req" || p[2] == "srv":
		return 1<<20 + num(p[len(p)-1])
	}
	return 1 << 30
}

// advKey: the instant of an event, then its shutdownKey.
func advKey(tok string) int {
	p := strings.Split(tok, ":")
	ms := 0
	if len(p) > 1 {
		ms, _ = strconv.Atoi(p[1])
	}
	return ms<<31 + shutdownKey(tok)
}

func strOr(s, d string) string {
	if s == "" {
		return d
	}
	return s
}

func ctShort(ct string) string {
	switch ct {
	case "text/plain; charset=UTF-8":
		return "text"
	case "application/octet-stream":
		return "bin"
	case "text/html":
		return "html"
	case "application/json":
		return "json"
	case "text/javascript; charset=UTF-8":
		return "js"
	case "":
		return "-"
	}
	return strings.ReplaceAll(ct, " ", "")
}

func (w *sesWorld) sesURL(s engine.Socket) string {
	return fmt.Sprintf("/engine.io/?transport=polling&EIO=%d&sid=%s", s.Protocol(), s.Id())
}

func (w *sesWorld) regShort() string {
	keys := w.srv.Clients().Keys()
	var ords []int
	for _, k := range keys {
		w.mu.Lock()
		o, ok := w.sockIdx[k]
		w.mu.Unlock()
		if ok {
			ords = append(ords, o)
		} else {
			ords = append(ords, -1)
		}
	}
	sort.Ints(ords)
	return fmt.Sprintf("%s:%d", ints(ords), int64(w.srv.ClientsCount()))
}

// stallReader hands out one byte, then waits for its gate before the rest.
type stallReader struct {
	r    io.Reader
	gate chan struct{}
	n    int
}

func (s *stallReader) Read(p []byte) (int, error) {
	if s.n == 1 {
		<-s.gate
	}
	s.n++
	if s.n == 1 && len(p) > 1 {
		p = p[:1]
	}
	return s.r.Read(p)
}
