package harness

import (
	"fmt"
	"strings"
	"testing"
)

func init() {
	families["ses-linger"] = famSesLinger
}

// famSesLinger: what clients, timers and the application do to a session whose
// graceful close is under way (state "closing"), and to requests left pending
// when a session ends (C02, C03, C11, C12).
func famSesLinger(t *testing.T, r *Rec) {
	shutdownTwice(t, r)
	const I, T = 400, 200
	type variant struct {
		transport string
		proto     int
	}
	for _, v := range []variant{{"polling", 4}, {"polling", 3}, {"websocket", 4}} {
		for _, buffered := range []bool{true, false} {
			for _, then := range []string{"late-message", "silence", "shutdown", "send", "discard", "poll-only"} {
				g := &sesGen{r: r, I: I, T: T, eio3: true}
				g.add(fmt.Sprintf("ses cfg %d %d 1000 100000 default 1 1 - 0 -", I, T))
				ss := &gSess{ord: 0, transport: v.transport, proto: v.proto, conn: -1, poll: -1, hsReq: -1, reqs: map[int]string{}}
				if v.transport == "polling" {
					ss.hsReq = 0
					ss.reqs[0] = "hs"
					g.nreq = 1
				} else {
					ss.conn = 0
					g.nconn = 1
				}
				g.sess = append(g.sess, ss)
				g.add(fmt.Sprintf("ses hs %s %d 0 -", v.transport, v.proto))
				if buffered {
					// polling: nothing pending, the packet waits in the buffer; websocket: the batch is in flight
					m := rmsg{"t", []byte("kept")}
					ss.sent = append(ss.sent, m)
					op := "ses"
					if v.transport == "websocket" {
						op = "ses+"
					}
					g.add(fmt.Sprintf("%s send s0 t %s 1 0 -", op, hx(m.data)))
				}
				ss.closeCause, ss.closeReq, ss.closeReqAt = true, true, 0
				g.add("ses close s0 0")
				poll := func() {
					if v.transport == "polling" {
						ss.reqs[g.nreq] = "poll"
						ss.poll = g.nreq
						g.nreq++
						g.add("ses poll s0")
					}
				}
				late := func() {
					if v.transport == "polling" {
						ss.reqs[g.nreq] = "post"
						g.nreq++
						g.add(fmt.Sprintf("ses post s0 t 1 %s", hx(g.encode(ss, []epkt{{'4', "t", []byte("late")}}))))
					} else {
						g.add("ses frame 0 t " + hx([]byte("4late")))
					}
				}
				switch then {
				case "late-message":
					late()
					poll()
					late()
					poll()
				case "silence":
					g.add(fmt.Sprintf("ses adv %d", I+T+60))
					g.now += I + T + 60
				case "shutdown":
					g.add("ses shutdown")
				case "send":
					g.add("ses send s0 t " + hx([]byte("after-close")) + " 1 1 -")
					poll()
					poll()
				case "discard":
					g.add("ses close s0 1")
				case "poll-only":
					poll()
					poll()
				}
				g.add("ses adv 10")
				g.now += 10
				g.add("ses obs")
				outs := sesRun(t, g.lines)
				r.scenarios++
				for i, l := range g.lines {
					r.Op(l, outs[i])
				}
				r.Cover(fmt.Sprintf("linger/%s/%d/buffered=%s/%s", v.transport, v.proto, b01(buffered), then))
				monitorSession(r, g, outs)
				// C12: whatever follows a graceful close, the session ends, once, and what was buffered is not lost
				// when the client reads again
				last := parseObs(outs[len(outs)-1])
				closes := 0
				for _, out := range outs {
					for _, e := range parseObs(out).events {
						if e.who == "s0" && e.name == "close" {
							closes++
						}
					}
				}
				// polling with data buffered closes when the client reads again, or at the heartbeat bound; everything
				// else closes at once
				needsRead := v.transport == "polling" && buffered
				readHappened := then == "late-message" || then == "send" || then == "poll-only"
				if (!needsRead || readHappened || then == "silence" || then == "shutdown" || then == "discard") && (last.states[0][0] != "closed" || closes != 1) {
					r.Violate("C12", fmt.Sprintf("C12/graceful-close-not-completed/%s/%s", v.transport, then),
						fmt.Sprintf("graceful close (buffered=%v) followed by %s: session is %s with %d close events", buffered, then, last.states[0][0], closes), g.lines)
					// the session stopped being open (Close was called): it owes the application exactly one close event
					r.Violate("C03", fmt.Sprintf("C03/left-open-without-close-event/%s/%s/closes=%d", v.transport, then, closes),
						fmt.Sprintf("the session stopped being open (graceful close, buffered=%v) and, after %s, is %s with %d close events, want closed with exactly one", buffered, then, last.states[0][0], closes), g.lines)
					if then == "silence" {
						r.Violate("C07", fmt.Sprintf("C07/silent-peer-not-closed/closing-session/%s/proto=%d", v.transport, v.proto),
							fmt.Sprintf("a session waiting to close gracefully (buffered=%v) whose peer stays silent is %s %d ms after the heartbeat deadline", buffered, last.states[0][0], 60), g.lines)
					}
				}
			}
		}
	}
	// a graceful close while an upgrade is in progress: what is buffered is delivered on the new transport before it is closed
	for _, cand := range []string{"ws"} {
		for _, probed := range []bool{true, false} {
			lines := []string{fmt.Sprintf("ses cfg %d %d 1000 100000 default 1 1 - 0 -", 25000, 20000), "ses hs polling 4 0 -", "ses " + cand + " s0 4 0"}
			if probed {
				lines = append(lines, "ses frame 0 t 3270726f6265")
			}
			lines = append(lines, "ses send s0 t 6b657074 1 0 -", "ses close s0 0", "ses frame 0 t 35", "ses adv 10", "ses obs")
			outs := sesRun(t, lines)
			r.scenarios++
			for i, l := range lines {
				r.Op(l, outs[i])
			}
			r.Cover(fmt.Sprintf("linger/close-during-upgrade/%s/probed=%s", cand, b01(probed)))
			got, closes, state := false, 0, ""
			for _, out := range outs {
				o := parseObs(out)
				for _, e := range o.events {
					if e.who == "s0" && e.name == "close" {
						closes++
					}
				}
				for _, frs := range o.frames {
					for _, fr := range frs {
						if string(fr.data) == "4kept" {
							got = true
						}
					}
				}
				for _, rs := range o.resps {
					if pk, err := decodeV4Payload(unhx(rs.body)); err == nil {
						for _, p := range pk {
							if p.typ == '4' && string(p.data) == "kept" {
								got = true
							}
						}
					}
				}
				if st, ok := o.states[0]; ok {
					state = st[0]
				}
			}
			if !got {
				r.Violate("C12", "C12/buffered-data-lost/close-during-upgrade/probed="+b01(probed), "a message buffered when the session was closed gracefully during an upgrade never reached the client, on either transport", lines)
			}
			if state != "closed" || closes != 1 {
				r.Violate("C12", "C12/graceful-close-not-completed/close-during-upgrade/probed="+b01(probed), fmt.Sprintf("session is %s with %d close events", state, closes), lines)
			}
		}
	}
	// requests left pending when the session ends
	for _, proto := range []int{4, 3} {
		for _, how := range []string{"close-packet", "close0", "close1", "shutdown", "ws-drop-after-upgrade"} {
			g := &sesGen{r: r, I: I, T: T, eio3: true}
			g.add(fmt.Sprintf("ses cfg %d %d 1000 100000 default 1 1 - 0 -", I, T))
			ss := &gSess{ord: 0, transport: "polling", proto: proto, conn: -1, poll: 1, hsReq: 0, reqs: map[int]string{0: "hs", 1: "poll"}}
			g.sess = append(g.sess, ss)
			g.nreq = 2
			g.add(fmt.Sprintf("ses hs polling %d 0 -", proto), "ses poll s0")
			ss.pollPending = true
			ss.closeCause = true
			switch how {
			case "close-packet":
				ss.reqs[g.nreq] = "post"
				g.nreq++
				g.add("ses post s0 t 1 " + hx(g.encode(ss, []epkt{{'1', "t", nil}})))
			case "close0":
				g.add("ses close s0 0")
			case "close1":
				g.add("ses close s0 1")
			case "shutdown":
				g.add("ses shutdown")
			case "ws-drop-after-upgrade":
				g.add(fmt.Sprintf("ses ws s0 %d 0", proto), "ses frame 0 t 3270726f6265", "ses adv 100", "ses frame 0 t 35", "ses drop 0")
			}
			g.add("ses adv 10", "ses obs")
			outs := sesRun(t, g.lines)
			r.scenarios++
			for i, l := range g.lines {
				r.Op(l, outs[i])
			}
			r.Cover(fmt.Sprintf("linger/pending-poll/%d/%s", proto, how))
			if how != "ws-drop-after-upgrade" {
				monitorSession(r, g, outs)
			}
			last := parseObs(outs[len(outs)-1])
			if last.pend != "-" {
				r.Violate("C11", "C11/pending-poll-not-released/"+how, fmt.Sprintf("the session ended (%s) but request(s) %s were never answered", how, last.pend), g.lines)
				r.Violate("C12", "C12/pending-poll-not-released/"+how, fmt.Sprintf("the session ended (%s) but request(s) %s were never answered", how, last.pend), g.lines)
			}
		}
	}
}


// shutdownTwice: a server that was closed still accepts handshakes; closing it again closes the sessions opened since,
// each with one close event, releases their pending polls and empties the table (C12: "closing the server closes every
// session" holds for every Close, not for the first one only).
func shutdownTwice(t *testing.T, r *Rec) {
	lines := []string{"ses cfg 25000 20000 1000 100000 default 1 0 - 0 -", "ses hs polling 4 0 -", "ses hs websocket 4 0 -", "ses shutdown",
		"ses hs polling 4 0 -", "ses poll s2", "ses hs websocket 4 0 -", "ses shutdown", "ses obs"}
	outs := sesRun(t, lines)
	r.scenarios++
	r.Cover("linger/shutdown-twice")
	closes := map[string][]string{}
	for i, l := range lines {
		r.Op(l, outs[i])
		if i < 7 || outs[i] == "-" || outs[i] == "ok" {
			continue
		}
		for _, e := range parseObs(outs[i]).events {
			if e.name == "close" && strings.HasPrefix(e.who, "s") && e.who != "srv" {
				closes[e.who] = append(closes[e.who], e.args[0])
			}
		}
	}
	for _, who := range []string{"s2", "s3"} {
		if got := strings.Join(closes[who], ","); got != "forced_close" {
			r.Violate("C12", "C12/second-shutdown/close-events/"+who, "the second Server.Close left "+who+" (opened after the first) with close events ["+got+"], want exactly one, forced close", lines)
		}
	}
	if last := parseObs(outs[len(outs)-1]); last.pend != "-" {
		r.Violate("C12", "C12/second-shutdown/pending-poll-not-released", "after the second Server.Close a poll is still pending: "+last.pend, lines)
	}
}
