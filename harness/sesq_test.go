package harness

import (
	"context"
	"crypto/ecdsa"
	"crypto/elliptic"
	"crypto/rand"
	"crypto/tls"
	"crypto/x509"
	"crypto/x509/pkix"
	"fmt"
	"io"
	"math/big"
	"net"
	"net/http"
	"runtime"
	"strings"
	"sync"
	"testing"
	"time"

	"github.com/quic-go/quic-go/http3"
	"github.com/zishang520/engine.io/v2/types"
	ewt "github.com/zishang520/engine.io/v2/webtransport"
	"github.com/zishang520/webtransport-go"
)

// Real-time session scenarios ("sesq ..." lines): the same operations as the
// "ses" scenarios, but outside a synctest bubble, because a WebTransport
// session needs a QUIC peer: the real engine server behind a real
// webtransport.Server on a loopback UDP socket, the client a real
// webtransport.Dialer. Quiescence is sampled (nothing observable moved for a
// while) instead of proved by the bubble, instants are not compared (every
// event is stamped 0 on both sides) and the scenarios stay away from timers.

func init() {
	scenarioRunners["sesq"] = sesqRun
}

var (
	curSes   *sesWorld
	rtTick   = 5 * time.Millisecond
	rtStable = 8
)

func (w *sesWorld) snapshot() [6]int {
	var s [6]int
	w.mu.Lock()
	s[0] = len(w.evs)
	w.mu.Unlock()
	w.parkMu.Lock()
	s[1] = len(w.parked)
	w.parkMu.Unlock()
	for _, c := range w.conns {
		c.mu.Lock()
		s[2] += len(c.frames) + c.seen
		if c.closed != "" {
			s[3]++
		}
		c.mu.Unlock()
	}
	for _, h := range w.reqs {
		s[4] += h.writes
		if h.finished() {
			s[5]++
		}
	}
	return s
}

// busyGoroutines counts the goroutines of the process that are running or runnable (the caller
// excluded): with the sampled counters this is the real-time stand-in for the bubble's barrier.
func busyGoroutines() int {
	buf := make([]byte, 1<<20)
	n := runtime.Stack(buf, true)
	busy := 0
	for _, blk := range strings.Split(string(buf[:n]), "\n\n") {
		i, j := strings.IndexByte(blk, '['), strings.IndexByte(blk, ']')
		if i < 0 || j < i {
			continue
		}
		st := blk[i+1 : j]
		if strings.HasPrefix(st, "running") || strings.HasPrefix(st, "runnable") {
			busy++
		}
	}
	return busy - 1
}

func rtIdle() {
	w := curSes
	if w == nil {
		time.Sleep(time.Duration(rtStable) * rtTick)
		return
	}
	deadline := time.Now().Add(5 * time.Second)
	last := w.snapshot()
	stable := 0
	for stable < rtStable && time.Now().Before(deadline) {
		time.Sleep(rtTick)
		cur := w.snapshot()
		if cur == last && busyGoroutines() <= 0 {
			stable++
		} else {
			stable, last = 0, cur
		}
	}
}

// sesqRun runs one real-time scenario; slow > 1 stretches the quiescence window (retries).
func sesqRunSlow(t *testing.T, lines []string, slow int) []string {
	inner := make([]string, len(lines))
	for i, l := range lines {
		f := strings.Fields(l)
		f[0] = "ses" + strings.TrimPrefix(f[0], "sesq")
		inner[i] = strings.Join(f, " ")
	}
	oldIdle, oldStable := idle, rtStable
	rtMode, idle, rtStable = true, rtIdle, rtStable*slow
	defer func() { rtMode, idle, rtStable, curSes = false, oldIdle, oldStable, nil }()
	return sesRun(t, inner)
}

func sesqRun(t *testing.T, lines []string) []string { return sesqRunSlow(t, lines, 1) }

// ---- the QUIC loopback ---------------------------------------------------------

var (
	wtTLSOnce sync.Once
	wtTLSSrv  *tls.Config
	wtTLSPool *x509.CertPool
)

func wtTLS() (*tls.Config, *x509.CertPool) {
	wtTLSOnce.Do(func() {
		key, _ := ecdsa.GenerateKey(elliptic.P256(), rand.Reader)
		tmpl := &x509.Certificate{SerialNumber: big.NewInt(1), Subject: pkix.Name{CommonName: "localhost"},
			NotBefore: time.Now().Add(-time.Hour), NotAfter: time.Now().Add(24 * time.Hour),
			KeyUsage: x509.KeyUsageDigitalSignature | x509.KeyUsageCertSign, ExtKeyUsage: []x509.ExtKeyUsage{x509.ExtKeyUsageServerAuth},
			IsCA: true, BasicConstraintsValid: true, DNSNames: []string{"localhost"}, IPAddresses: []net.IP{net.ParseIP("127.0.0.1")}}
		der, err := x509.CreateCertificate(rand.Reader, tmpl, tmpl, &key.PublicKey, key)
		if err != nil {
			panic(err)
		}
		cert, _ := x509.ParseCertificate(der)
		wtTLSPool = x509.NewCertPool()
		wtTLSPool.AddCert(cert)
		wtTLSSrv = &tls.Config{Certificates: []tls.Certificate{{Certificate: [][]byte{der}, PrivateKey: key}}, NextProtos: []string{http3.NextProtoH3}}
	})
	return wtTLSSrv, wtTLSPool
}

type wtLoop struct {
	srv    *webtransport.Server
	udp    *net.UDPConn
	port   int
	dialer *webtransport.Dialer
}

var wtLoops = map[*world]*wtLoop{}

// wtLoopback starts (once per world) the WebTransport server in front of the engine.
func (w *world) wtLoopback() *wtLoop {
	if l, ok := wtLoops[w]; ok {
		return l
	}
	srvTLS, pool := wtTLS()
	l := &wtLoop{}
	l.srv = &webtransport.Server{CheckOrigin: func(*http.Request) bool { return true }}
	mux := http.NewServeMux()
	mux.HandleFunc("/engine.io/", func(rw http.ResponseWriter, r *http.Request) {
		if ewt.IsWebTransportUpgrade(r) {
			w.srv.OnWebTransportSession(types.NewHttpContext(rw, r), l.srv)
		} else {
			w.srv.HandleRequest(types.NewHttpContext(rw, r))
		}
	})
	l.srv.H3 = http3.Server{TLSConfig: srvTLS, Handler: mux}
	udp, err := net.ListenUDP("udp", &net.UDPAddr{IP: net.ParseIP("127.0.0.1")})
	if err != nil {
		w.t.Fatal(err)
	}
	l.udp, l.port = udp, udp.LocalAddr().(*net.UDPAddr).Port
	go l.srv.Serve(udp)
	l.dialer = &webtransport.Dialer{TLSClientConfig: &tls.Config{RootCAs: pool, NextProtos: []string{http3.NextProtoH3}}}
	wtLoops[w] = l
	w.cleanups = append(w.cleanups, func() {
		l.dialer.Close()
		l.srv.Close()
		udp.Close()
		delete(wtLoops, w)
	})
	return l
}

// wtDial opens a WebTransport session to the engine and sends the first frame
// (the open packet that asks for a new session or names the session to upgrade).
func (w *world) wtDial(first string) *wsClient { return w.wtDialRaw(first, nil) }

// wtDialRaw: like wtDial; when raw is given, those bytes are written to the stream as they are instead of a first frame.
func (w *world) wtDialRaw(first string, raw []byte) *wsClient {
	l := w.wtLoopback()
	c := &wsClient{servDone: make(chan struct{}), readDone: make(chan struct{})}
	w.conns = append(w.conns, c)
	ctx, cancel := context.WithTimeout(context.Background(), 5*time.Second)
	defer cancel()
	_, sess, err := l.dialer.Dial(ctx, fmt.Sprintf("https://localhost:%d/engine.io/", l.port), nil)
	if err != nil {
		c.dialErr, c.closed = err.Error(), "closed"
		close(c.readDone)
		return c
	}
	str, err := sess.OpenStreamSync(ctx)
	if err != nil {
		c.dialErr, c.closed = err.Error(), "closed"
		close(c.readDone)
		return c
	}
	c.wtSess = sess
	c.wtConn = ewt.NewConn(sess, str, false, 0, 0, nil, nil, nil)
	go c.wtReadLoop()
	if raw != nil {
		str.Write(raw)
	} else if first != "" {
		c.wtConn.WriteMessage(ewt.TextMessage, []byte(first))
	}
	idle()
	return c
}

func (c *wsClient) wtReadLoop() {
	defer close(c.readDone)
	for {
		mt, r, err := c.wtConn.NextReader()
		var data []byte
		if err == nil {
			data, err = io.ReadAll(r)
		}
		c.mu.Lock()
		if err != nil {
			c.closed = "closed"
			c.mu.Unlock()
			return
		}
		k := "t"
		if mt == ewt.BinaryMessage {
			k = "b"
		}
		c.frames = append(c.frames, wsFrame{k, data})
		c.mu.Unlock()
	}
}

// ---- families -------------------------------------------------------------------

func init() {
	families["ses-wtq"] = famSesWtq
	families["ses-wtupg"] = famSesWtUpg
}

const wtqCfg = "ses cfg 25000 20000 %d 100000 polling,websocket,webtransport 1 0 - 0 -"

func toSesq(lines []string) []string {
	out := make([]string, len(lines))
	for i, l := range lines {
		out[i] = "sesq" + strings.TrimPrefix(l, "ses")
	}
	return out
}

// sesqStable runs a real-time scenario until two consecutive runs agree (the
// quiescence window is stretched after a disagreement). A scenario that never
// repeats itself is not recorded: its answers depend on the scheduler, the
// model has one answer only.
func sesqStable(t *testing.T, r *Rec, lines []string) ([]string, bool) {
	for _, slow := range []int{1, 3, 6} {
		a := sesqRunSlow(t, lines, slow)
		b := sesqRunSlow(t, lines, slow)
		if strings.Join(a, "\n") == strings.Join(b, "\n") {
			return a, true
		}
		r.Cover("wtq/unstable-run")
	}
	r.notes = append(r.notes, "unstable real-time scenario dropped: "+strings.Join(lines, " ; "))
	return nil, false
}

// famSesWtq: random histories over WebTransport, WebSocket and polling sessions
// in real time (C01 C02 C03 C04 C12 C18 through monitorSession; no timers).
func famSesWtq(t *testing.T, r *Rec) {
	// a session that lives long enough to receive, in frames each well below the limit, more than the limit in total:
	// the limit is per message
	for _, lim := range []int{300, 1000} {
		g := &sesGen{r: r, I: 25000, T: 20000, rt: true}
		g.add(fmt.Sprintf("ses cfg 25000 20000 60000 %d polling,websocket,webtransport 1 0 - 0 -", lim))
		ss := &gSess{ord: 0, transport: "webtransport", proto: 4, conn: 0, poll: -1, hsReq: -1, reqs: map[int]string{}}
		g.nconn = 1
		g.sess = append(g.sess, ss)
		g.add("ses hs webtransport 4 0 -")
		for k := 0; k < 8; k++ {
			m := rmsg{"t", bytes_repeat(byte('a'+k), lim/3)}
			ss.posted = append(ss.posted, m)
			g.add(fmt.Sprintf("ses frame 0 t %s", hx(append([]byte("4"), m.data...))))
		}
		g.add("ses obs")
		q := toSesq(g.lines)
		outs, ok := sesqStable(t, r, q)
		if !ok {
			continue
		}
		r.scenarios++
		r.Cover(fmt.Sprintf("wtq/many-frames-below-the-limit/limit=%d", lim))
		for i, l := range q {
			r.Op(l, outs[i])
		}
		monitorSession(r, g, outs)
	}
	// the first frame of a WebTransport connection is bounded like every other: one above the limit ends that
	// connection and creates no session (monitor only: the model's WebTransport handshake has no frame size)
	for _, lim := range []int{300, 1000} {
		for _, how := range []string{"sent", "announced"} {
			// "announced": only the header of a frame far above the limit arrives, then one byte: the server must not wait for the rest
			q := toSesq([]string{fmt.Sprintf("ses cfg 25000 20000 60000 %d polling,websocket,webtransport 1 0 - 0 -", lim), fmt.Sprintf("ses wtbig %d %s", 4*lim, how), "ses obs"})
			outs, ok := sesqStable(t, r, q)
			if !ok {
				continue
			}
			r.scenarios++
			r.Cover(fmt.Sprintf("wtq/oversized-first-frame/%s/limit=%d", how, lim))
			sessions, reg, ended := 0, "", false
			for _, out := range outs {
				if out == "-" || out == "ok" {
					continue
				}
				o := parseObs(out)
				sessions = max(sessions, len(o.states))
				if o.reg != "" {
					reg = o.reg
				}
				if _, ok := o.ended[0]; ok {
					ended = true
				}
				for _, e := range o.events {
					if e.name == "connection" {
						sessions = max(sessions, 1)
					}
				}
			}
			if sessions > 0 || !strings.HasPrefix(reg, "-") || !ended {
				r.Violate("C10", fmt.Sprintf("C10/wt-first-frame-not-limited/%s/limit=%d", how, lim),
					fmt.Sprintf("a WebTransport connection whose first frame (%s) carries %d bytes under a limit of %d: sessions created %d, client table %q, connection ended by the server: %v (want none, empty, true)", how, 4*lim, lim, sessions, reg, ended), q)
			}
		}
	}
	// a peer that closes its WebTransport session: the session closes once; which reason it carries is compared with
	// the model and judged by the monitor (known finding: the port reports a transport error, see known_findings.json)
	{
		g := &sesGen{r: r, I: 25000, T: 20000, rt: true}
		g.add(fmt.Sprintf(wtqCfg, 60000))
		ss := &gSess{ord: 0, transport: "webtransport", proto: 4, conn: 0, poll: -1, hsReq: -1, reqs: map[int]string{}}
		g.nconn = 1
		g.sess = append(g.sess, ss)
		g.add("ses hs webtransport 4 0 -")
		g.add("ses obs")
		g.add("ses drop 0")
		ss.closeCause = true
		g.add("ses obs")
		q := toSesq(g.lines)
		if outs, ok := sesqStable(t, r, q); ok {
			r.scenarios++
			r.Cover("wtq/peer-closes-its-session")
			for i, l := range q {
				r.Op(l, outs[i])
			}
			monitorSession(r, g, outs)
		}
	}
	// one pre-encoded frame handed to several sends (what a broadcast does): every write of it puts the same bytes on the wire
	{
		g := &sesGen{r: r, I: 25000, T: 20000, rt: true}
		g.add(fmt.Sprintf(wtqCfg, 60000))
		ss := &gSess{ord: 0, transport: "webtransport", proto: 4, conn: 0, poll: -1, hsReq: -1, reqs: map[int]string{}}
		g.nconn = 1
		g.sess = append(g.sess, ss)
		g.add("ses hs webtransport 4 0 -")
		pre := append([]byte("4"), []byte("shared frame")...)
		for k := 0; k < 3; k++ {
			m := rmsg{"t", []byte("shared frame")}
			ss.sent = append(ss.sent, m)
			g.add(fmt.Sprintf("ses send s0 t %s 0 0 t%s", hx(m.data), hx(pre)))
		}
		g.add("ses obs")
		q := toSesq(g.lines)
		if outs, ok := sesqStable(t, r, q); ok {
			r.scenarios++
			r.Cover("wtq/shared-pre-encoded-frame")
			got := 0
			for i, l := range q {
				r.Op(l, outs[i])
				if outs[i] == "-" || outs[i] == "ok" {
					continue
				}
				for _, frs := range parseObs(outs[i]).frames {
					for _, fr := range frs {
						if string(fr.data) == string(pre) {
							got++
						}
					}
				}
			}
			if got != 3 {
				r.Violate("C13", "C13/prepared-message/written-several-times", fmt.Sprintf("a pre-encoded frame written three times reached the peer intact %d times", got), q)
			}
			monitorSession(r, g, outs)
		}
	}
	n := 5
	if r.thorough() {
		n = 60
	}
	for s := 0; s < n; s++ {
		g := &sesGen{r: r, I: 25000, T: 20000, rt: true}
		g.add(fmt.Sprintf(wtqCfg, 10000))
		nops := 12 + r.rng.IntN(8)
		for k := 0; k < nops; k++ {
			g.step()
		}
		for _, ss := range g.sess {
			if ss.transport == "polling" && !ss.closeCause {
				if !ss.pollPending {
					ss.reqs[g.nreq] = "poll"
					ss.poll = g.nreq
					g.nreq++
					g.add(fmt.Sprintf("ses poll s%d", ss.ord))
				}
				ss.polledAtEnd = true
			}
		}
		g.add("ses obs")
		q := toSesq(g.lines)
		outs, ok := sesqStable(t, r, q)
		if !ok {
			continue
		}
		r.scenarios++
		for i, l := range q {
			r.Op(l, outs[i])
		}
		monitorSession(r, g, outs)
		if len(r.samples) < 3 {
			r.Sample(strings.Join(q[:min(8, len(q))], " ; "))
		}
	}
}

// famSesWtUpg: a polling session and a WebTransport candidate (C08, and C01/C02
// across the switch, text and binary): candidate scripts over the packet
// alphabet. No poll is left pending while a candidate probes and nothing waits
// for the check interval, so that real time and the model's clock cannot disagree.
func famSesWtUpg(t *testing.T, r *Rec) {
	frameOf := map[string]string{"probe": "3270726f6265", "ping": "32", "pong": "33", "msg": "346e6f", "upgrade": "35", "noop": "36", "garbage": "7a7a"}
	scripts := [][]string{{"probe", "upgrade"}, {"upgrade"}, {"probe", "msg"}, {"garbage"}, {"probe", "drop"}, {"drop"}}
	if r.thorough() {
		// (no "silence": the upgrade timeout is a timer, and real time is not the model's clock; the WebSocket
		// family covers it under the bubble's virtual clock)
		alphabet := []string{"probe", "ping", "pong", "msg", "upgrade", "noop", "garbage", "drop"}
		scripts = nil
		for _, a := range alphabet {
			scripts = append(scripts, []string{a})
			if a == "probe" {
				for _, b := range alphabet {
					scripts = append(scripts, []string{a, b})
				}
			}
		}
	}
	const U = 60000 // never fires within a scenario
	for _, script := range scripts {
		lines := []string{fmt.Sprintf(wtqCfg, U), "ses hs polling 4 0 -", "ses send s0 t 6d31 0 0 -", "ses poll s0", "ses wt s0"}
		candAlive, upgraded := true, false
		expectPong := 0
		for _, sym := range script {
			if !candAlive || upgraded {
				break
			}
			switch sym {
			case "drop":
				lines = append(lines, "ses drop 0")
				candAlive = false
			case "silence":
				lines = append(lines, fmt.Sprintf("ses adv %d", U+150))
				candAlive = false
			default:
				lines = append(lines, "ses frame 0 t "+frameOf[sym])
				switch sym {
				case "probe":
					expectPong++
				case "upgrade":
					upgraded = true
				default:
					candAlive = false
				}
			}
		}
		lines = append(lines, "ses send s0 t 6d32 0 0 -", "ses obs")
		mid := len(lines) - 1
		if !upgraded {
			if candAlive {
				lines = append(lines, "ses drop 0")
			}
			// still usable on polling, and a fresh candidate that follows the protocol completes the switch
			lines = append(lines, "ses poll s0", "ses post s0 t 1 346331", "ses wt s0", "ses frame 1 t 3270726f6265", "ses frame 1 t 35")
		}
		cand := fmt.Sprint(btoi(!upgraded))
		lines = append(lines, "ses send s0 t 6d33 0 0 -", "ses send s0 b 00ff1e34 0 0 -", "ses frame "+cand+" t 346332", "ses frame "+cand+" b 04001eff", "ses obs")
		q := toSesq(lines)
		outs, ok := sesqStable(t, r, q)
		if !ok {
			continue
		}
		r.scenarios++
		for i, l := range q {
			r.Op(l, outs[i])
		}
		name := strings.Join(script, ",")
		r.Cover("wtupg/" + name)
		sig := func(cl string) string { return fmt.Sprintf("C08/webtransport/%s/script=%s", cl, name) }
		var clientMsgs, serverMsgs []string
		upgradeEvents, pongs := 0, 0
		closedSession := ""
		endedConn := map[int]bool{}
		for i, out := range outs {
			o := parseObs(out)
			for c := range o.ended {
				endedConn[c] = true
			}
			for _, e := range o.events {
				if e.who != "s0" {
					continue
				}
				switch e.name {
				case "upgrade":
					upgradeEvents++
				case "message":
					serverMsgs = append(serverMsgs, e.args[0]+":"+e.args[1])
				case "close":
					closedSession = e.args[0]
				}
			}
			for _, rs := range o.resps {
				pk, _ := decodeV4Payload(unhx(rs.body))
				for _, p := range pk {
					if p.typ == '4' {
						clientMsgs = append(clientMsgs, p.kind+":"+hx(p.data))
					}
				}
			}
			for _, frs := range o.frames {
				for _, fr := range frs {
					if string(fr.data) == "3probe" {
						pongs++
						continue
					}
					// a revision-4 client: a binary frame is a message, a text frame a packet
					if p, err := decodeV4Packet(fr.data, fr.kind); err == nil && p.typ == '4' {
						clientMsgs = append(clientMsgs, p.kind+":"+hx(p.data))
					}
				}
			}
			if i == mid {
				st := o.states[0]
				wantTr, wantFlags := "polling", "00"
				if upgraded {
					wantTr, wantFlags = "webtransport", "01"
				} else if candAlive {
					wantFlags = "10"
				}
				if st[0] != "open" || st[1] != wantTr || st[2] != wantFlags {
					cl := "failed-candidate-cost-the-session"
					if upgraded {
						cl = "conformant-candidate-did-not-switch"
					} else if st[1] == "webtransport" {
						cl = "switched-without-upgrade-packet"
					}
					r.Violate("C08", sig(cl), fmt.Sprintf("after the script the session is %v, want open/%s/%s", st, wantTr, wantFlags), q[:i+1])
				}
				if !candAlive && !upgraded && !endedConn[0] {
					r.Violate("C08", sig("candidate-not-closed"), "the failed candidate was not closed: "+out, q[:i+1])
				}
			}
		}
		last := parseObs(outs[len(outs)-1])
		if closedSession != "" || last.states[0][0] != "open" {
			r.Violate("C08", sig("session-closed"), "the session did not survive: close reason "+closedSession, q)
		}
		if last.states[0][1] != "webtransport" || last.states[0][2] != "01" || upgradeEvents != 1 {
			r.Violate("C08", sig("no-upgrade-in-the-end"), fmt.Sprintf("a protocol-conformant candidate did not complete the switch exactly once: state %v, %d upgrade events", last.states[0], upgradeEvents), q)
		}
		if pongs < expectPong {
			r.Violate("C08", sig("probe-unanswered"), fmt.Sprintf("%d probe pings, %d probe pongs", expectPong, pongs), q)
		}
		if want := "t:6d31,t:6d32,t:6d33,b:00ff1e34"; strings.Join(clientMsgs, ",") != want {
			r.Violate("C01", "C01/across-webtransport-upgrade/script="+name, fmt.Sprintf("client received %v across the upgrade, want %s", clientMsgs, want), q)
		}
		wantSrv := "t:6332,b:04001eff"
		if !upgraded {
			wantSrv = "t:6331," + wantSrv
		}
		if strings.Join(serverMsgs, ",") != wantSrv {
			r.Violate("C02", "C02/across-webtransport-upgrade/script="+name, fmt.Sprintf("application received %v, want %s (a message on a candidate is never delivered)", serverMsgs, wantSrv), q)
		}
	}
}
