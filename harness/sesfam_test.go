package harness

import (
	"fmt"
	"strings"
	"testing"
	"time"
)

func init() {
	families["ses-batch"] = famSesBatch
}

// famSesBatch: batches of several packets on every transport (sends issued
// while the transport is busy), pre-encoded frames at every position of a
// batch, and graceful close right after sends (C01, C12, C18).
func famSesBatch(t *testing.T, r *Rec) {
	type variant struct {
		transport string
		proto     int
		b64       bool
	}
	variants := []variant{{"polling", 4, false}, {"websocket", 4, false}, {"websocket", 4, true}, {"polling", 4, true}, {"websocket", 3, false}, {"polling", 3, true}}
	for _, v := range variants {
		for _, prePos := range []int{-1, 0, 1, 2} {
			for _, closing := range []string{"none", "close0", "close1"} {
				for _, nmsg := range []int{1, 3} {
					if prePos >= nmsg {
						continue
					}
					g := &sesGen{r: r, I: 5000, T: 200, eio3: true}
					g.add("ses cfg 5000 200 1000 100000 default 1 1 - 0 -")
					ss := &gSess{ord: 0, transport: v.transport, proto: v.proto, b64: v.b64, conn: -1, poll: -1, hsReq: -1, reqs: map[int]string{}}
					if v.transport == "polling" {
						ss.hsReq = 0
						ss.reqs[0] = "hs"
						g.nreq = 1
					} else {
						ss.conn = 0
						g.nconn = 1
					}
					g.sess = append(g.sess, ss)
					g.add(fmt.Sprintf("ses hs %s %d %s -", v.transport, v.proto, b01(v.b64)))
					// first send occupies the transport (polling: nothing pending, so it only buffers)
					first := rmsg{"t", []byte("first")}
					ss.sent = append(ss.sent, first)
					g.add(fmt.Sprintf("ses+ send s0 t %s 1 1 -", hx(first.data)))
					for i := 0; i < nmsg; i++ {
						m := randMsg(r)
						if len(m.data) > 60 {
							m.data = m.data[:10]
							m.kind = "b"
						}
						pre := "-"
						if i == prePos || (prePos >= 0 && i == prePos+2) { // the same frame again two sends later: a broadcast's second recipient
							m = rmsg{"t", []byte(fmt.Sprintf("pre%d", prePos))}
							pre = "t" + hx(append([]byte("4"), m.data...))
						}
						ss.sent = append(ss.sent, m)
						op := "ses+"
						if i == nmsg-1 && closing == "none" {
							op = "ses"
						}
						g.add(fmt.Sprintf("%s send s0 %s %s 1 %s %s", op, m.kind, hx(m.data), b01(i%2 == 0), pre))
					}
					if closing != "none" {
						ss.closeCause = true
						g.add(fmt.Sprintf("ses close s0 %s", closing[5:]))
					}
					if v.transport == "polling" {
						ss.reqs[g.nreq] = "poll"
						ss.poll = g.nreq
						g.nreq++
						g.add("ses poll s0")
						ss.polledAtEnd = true
						ss.reqs[g.nreq] = "poll"
						g.nreq++
						g.add("ses poll s0")
					}
					g.add("ses adv 10")
					g.add("ses obs")
					outs := sesRun(t, g.lines)
					r.scenarios++
					for i, l := range g.lines {
						r.Op(l, outs[i])
					}
					r.Cover(fmt.Sprintf("batch/%s/%d/b64=%s/pre=%d/%s/n=%d", v.transport, v.proto, b01(v.b64), prePos, closing, nmsg))
					monitorSession(r, g, outs)
					// C12: a graceful close delivers what was buffered before the close packet / teardown
					if closing == "close0" {
						recv := 0
						sawClosePkt := false
						orderOK := true
						for _, out := range outs {
							o := parseObs(out)
							for _, rs := range o.resps {
								if ss.reqs[rs.req] == "poll" || ss.reqs[rs.req] == "hs" {
									var pk []epkt
									if v.proto == 4 {
										pk, _ = decodeV4Payload(unhx(rs.body))
									} else if rs.ct == "bin" {
										pk, _ = decodeV3BinaryPayload(unhx(rs.body))
									} else {
										pk, _ = decodeV3StringPayload(unhx(rs.body))
									}
									for _, p := range pk {
										if p.typ == '4' {
											recv++
											if sawClosePkt {
												orderOK = false
											}
										}
										if p.typ == '1' {
											sawClosePkt = true
										}
									}
								}
							}
							for _, frs := range o.frames {
								for _, fr := range frs {
									if (fr.kind == "t" && len(fr.data) > 0 && fr.data[0] == '4') || fr.kind == "b" || (fr.kind == "t" && len(fr.data) > 0 && fr.data[0] == 'b') {
										recv++
									}
								}
							}
						}
						pre := ""
						if prePos >= 0 {
							pre = "/pre-encoded-in-batch"
						}
						if recv != len(ss.sent) || !orderOK {
							r.Violate("C12", fmt.Sprintf("C12/data-before-close/%s%s", v.transport, pre),
								fmt.Sprintf("graceful close with %d buffered messages: the client received %d before the close (order ok: %v)", len(ss.sent), recv, orderOK), g.lines)
						}
					}
				}
			}
		}
	}
	_ = strings.Join
}

func init() {
	families["ses-hs"] = famSesHs
	families["ses-hb"] = famSesHb
}

// famSesHs: the option lattice of the handshake (C06) and the cookie /
// initial_headers / headers policy (C17), three sessions per server.
func famSesHs(t *testing.T, r *Rec) {
	hsSharedInitial(t, r)
	hsOverlapping(t, r)
	hsHeadersAcrossUpgrade(t, r)
	type cfg struct {
		I, T, max   int
		transports  string
		upgrades    bool
		eio3        bool
		initial     string
		cookie      bool
	}
	var cfgs []cfg
	for _, tr := range []string{"default", "polling", "polling,websocket,webtransport", "websocket"} {
		for _, up := range []bool{true, false} {
			for i, initial := range []string{"-", hx([]byte("hello"))} {
				cfgs = append(cfgs, cfg{[]int{25000, 300, 1500}[(i+len(cfgs))%3], []int{20000, 200, 777}[(len(cfgs))%3], []int{1000000, 100, 4096}[len(cfgs)%3],
					tr, up, len(cfgs)%2 == 0, initial, len(cfgs)%3 != 1})
			}
		}
	}
	// values a configuration layer may mistake for "not set": an explicit zero is what the open packet must advertise
	cfgs = append(cfgs, cfg{300, 0, 0, "default", true, false, "-", false}, cfg{25000, 0, 100, "polling,websocket,webtransport", true, true, "-", true},
		cfg{300, 200, 0, "websocket", false, false, hx([]byte("hello")), false})
	for ci, c := range cfgs {
		lines := []string{fmt.Sprintf("ses cfg %d %d 1000 %d %s %s %s %s %s - hdr", c.I, c.T, c.max, c.transports, b01(c.upgrades), b01(c.eio3), c.initial, b01(c.cookie))}
		enabled := c.transports
		if enabled == "default" {
			enabled = "polling,websocket"
		}
		type hs struct {
			transport string
			eio       int
			b64       bool
		}
		var hss []hs
		for i := 0; i < 3; i++ {
			tr := []string{"polling", "websocket"}[(i+len(c.transports))%2]
			if !strings.Contains(enabled, tr) {
				tr = strings.Split(enabled, ",")[0]
			}
			eio := 4
			eioTok := "4"
			if c.eio3 && i == 1 {
				// everything but EIO=4 is revision 3: the parameter absent, another number, not a number
				eio = 3
				eioTok = []string{"3", "-", "2", "5", "abc"}[(ci+len(c.transports))%5]
			}
			hss = append(hss, hs{tr, eio, i == 2})
			lines = append(lines, fmt.Sprintf("ses hs %s %s %s -", tr, eioTok, b01(i == 2)))
			if tr == "polling" && c.initial != "-" {
				lines = append(lines, fmt.Sprintf("ses poll s%d initial", i)) // the initial packet follows in the next cycle
			}
			if tr == "polling" { // two more responses of the same session
				lines = append(lines, fmt.Sprintf("ses post s%d t 1 %s", i, hx([]byte("1:6")[2*btoi(eio == 4):])))
				lines = append(lines, fmt.Sprintf("ses send s%d t 78 0 0 -", i), fmt.Sprintf("ses poll s%d", i))
			}
		}
		outs := sesRun(t, lines)
		r.scenarios++
		for i, l := range lines {
			r.Op(l, outs[i])
		}
		sIdx := -1
		nreq := 0
		reqSess := map[int]int{}
		hsReq := map[int]int{}
		for i, l := range lines {
			f := strings.Fields(l)
			o := parseObs(outs[i])
			switch f[1] {
			case "hs":
				sIdx++
				h := hss[sIdx]
				r.Cover(fmt.Sprintf("hs/%s/eio=%d/b64=%s/tr=%s/up=%s/initial=%s/cookie=%s", h.transport, h.eio, b01(h.b64), c.transports, b01(c.upgrades), b01(c.initial != "-"), b01(c.cookie)))
				replay := []string{lines[0], l}
				nconn := 0
				for _, e := range o.events {
					if e.name == "connection" {
						nconn++
						if e.args[2] != fmt.Sprint(h.eio) || e.args[1] != h.transport {
							r.Violate("C06", "C06/revision-or-transport", fmt.Sprintf("session announced as %s/%s for handshake %s EIO=%d", e.args[1], e.args[2], h.transport, h.eio), replay)
						}
					}
				}
				if nconn != 1 {
					r.Violate("C06", fmt.Sprintf("C06/connection-events=%d", nconn), "one admitted handshake must announce exactly one session: "+outs[i], replay)
				}
				// the first packets the client receives
				var pk []epkt
				if h.transport == "polling" {
					hsReq[sIdx] = nreq
					reqSess[nreq] = sIdx
					nreq++
					for _, rs := range o.resps {
						if h.eio == 4 {
							pk, _ = decodeV4Payload(unhx(rs.body))
						} else if rs.ct == "bin" {
							pk, _ = decodeV3BinaryPayload(unhx(rs.body))
						} else {
							pk, _ = decodeV3StringPayload(unhx(rs.body))
						}
					}
				} else {
					for _, frs := range o.frames {
						for _, fr := range frs {
							if fr.kind == "t" && len(fr.data) > 0 {
								pk = append(pk, epkt{fr.data[0], "t", fr.data[1:]})
							}
						}
					}
				}
				if len(pk) == 0 || pk[0].typ != '0' {
					r.Violate("C06", "C06/open-packet/missing", "first packet is not an open packet: "+outs[i], replay)
					continue
				}
				var op struct {
					Sid          string   `json:"sid"`
					Upgrades     []string `json:"upgrades"`
					PingInterval int      `json:"pingInterval"`
					PingTimeout  int      `json:"pingTimeout"`
					MaxPayload   int      `json:"maxPayload"`
				}
				if err := jsonUnmarshal(pk[0].data, &op); err != nil {
					r.Violate("C06", "C06/open-packet/json", "open packet is not JSON: "+string(pk[0].data), replay)
					continue
				}
				if !strings.Contains(string(pk[0].data), `"upgrades":[`) {
					r.Violate("C06", "C06/open-packet/upgrades-not-a-list", "the open packet's upgrades field is not a JSON list: "+string(pk[0].data), replay)
				}
				var wantUp []string
				if c.upgrades && h.transport == "polling" {
					for _, u := range []string{"websocket", "webtransport"} {
						if strings.Contains(enabled, u) {
							wantUp = append(wantUp, u)
						}
					}
				}
				gotUp := append([]string{}, op.Upgrades...)
				sortStrings(gotUp)
				if op.Sid != fmt.Sprintf("sid%d", sIdx) || op.PingInterval != c.I || op.PingTimeout != c.T || op.MaxPayload != c.max || strings.Join(gotUp, ",") != strings.Join(wantUp, ",") {
					r.Violate("C06", "C06/open-packet/fields", fmt.Sprintf("open packet %s, want sid=sid%d pingInterval=%d pingTimeout=%d maxPayload=%d upgrades=%v", pk[0].data, sIdx, c.I, c.T, c.max, wantUp), replay)
				}
				if c.initial != "-" && h.transport != "polling" {
					if len(pk) < 2 || pk[1].typ != '4' || string(pk[1].data) != "hello" {
						r.Violate("C06", fmt.Sprintf("C06/initial-packet/session=%d", min(sIdx, 1)), fmt.Sprintf("session %d: the configured initial packet is not the first message (got %d packets: %q)", sIdx, len(pk), pkSummary(pk)), replay)
					}
				}
			case "post", "poll":
				reqSess[nreq] = atoi(f[2][1:])
				nreq++
				if len(f) > 3 && f[3] == "initial" {
					k := atoi(f[2][1:])
					h := hss[k]
					var pk []epkt
					for _, rs := range o.resps {
						if h.eio == 4 {
							pk, _ = decodeV4Payload(unhx(rs.body))
						} else if rs.ct == "bin" {
							pk, _ = decodeV3BinaryPayload(unhx(rs.body))
						} else {
							pk, _ = decodeV3StringPayload(unhx(rs.body))
						}
					}
					if len(pk) < 1 || pk[0].typ != '4' || string(pk[0].data) != "hello" {
						r.Violate("C06", fmt.Sprintf("C06/initial-packet/session=%d", min(k, 1)), fmt.Sprintf("session %d: the configured initial packet is not the first message (next cycle carried %q)", k, pkSummary(pk)), lines[:i+1])
					}
				}
			}
			// C17: cookie exactly on the handshake response, value = the session's id; events
			for _, tok := range strings.Fields(outs[i]) {
				if strings.HasPrefix(tok, "H:") {
					p := strings.SplitN(tok, ":", 3)
					rq := atoi(p[1])
					val := string(unhx(unmask(p[2])))
					sess := reqSess[rq]
					isHs := hsReq[sess] == rq
					replay := lines[:i+1]
					switch {
					case c.cookie && isHs:
						if !strings.HasPrefix(val, fmt.Sprintf("io=sid%d;", sess)) && val != fmt.Sprintf("io=sid%d", sess) {
							r.Violate("C17", "C17/cookie/value", fmt.Sprintf("handshake response of s%d carries Set-Cookie %q, want io=<its session id>", sess, val), replay)
						}
					case c.cookie && !isHs && val != "":
						r.Violate("C17", "C17/cookie/on-later-response", fmt.Sprintf("response %d of s%d carries Set-Cookie %q", rq, sess, val), replay)
					case !c.cookie && val != "":
						r.Violate("C17", "C17/cookie/not-configured", "Set-Cookie without a cookie configured: "+val, replay)
					}
				}
			}
			ih, hd := map[int]int{}, map[int]int{}
			for _, e := range o.events {
				if e.who == "srv" && e.name == "initial_headers" {
					ih[atoi(e.args[0])]++
				}
				if e.who == "srv" && e.name == "headers" {
					hd[atoi(e.args[0])]++
				}
			}
			for _, rs := range o.resps {
				sess, known := reqSess[rs.req]
				if !known || rs.status != 200 {
					continue
				}
				isHs := hsReq[sess] == rs.req
				replay := lines[:i+1]
				if hd[rs.req] != 1 {
					r.Violate("C17", fmt.Sprintf("C17/headers-event/count=%d", hd[rs.req]), fmt.Sprintf("response %d fired %d headers events", rs.req, hd[rs.req]), replay)
				}
				if isHs && ih[rs.req] != 1 {
					r.Violate("C17", fmt.Sprintf("C17/initial_headers/handshake-count=%d", ih[rs.req]), "handshake response fired no or several initial_headers events", replay)
				}
				if !isHs && ih[rs.req] != 0 {
					r.Violate("C17", "C17/initial_headers/on-later-response", fmt.Sprintf("initial_headers fired for response %d (not the handshake) of s%d", rs.req, sess), replay)
				}
			}
		}
	}
}

// hsHeadersAcrossUpgrade: a client that does not pause polling before it sends the upgrade packet: the poll left
// pending is answered by the old transport as it closes, right around the upgrade event. It is a response of the
// session like any other: one headers event (C17).
func hsHeadersAcrossUpgrade(t *testing.T, r *Rec) {
	for _, wait := range []bool{false, true} {
		lines := []string{"ses cfg 25000 20000 1000 100000 default 1 0 - 1 - hdr", "ses hs polling 4 0 -", "ses poll s0", "ses ws s0 4 0", "ses frame 0 t 3270726f6265"}
		if wait {
			lines = append(lines, "ses adv 100", "ses poll s0") // the fast-upgrade noop released the first poll; a second one is pending at the switch
		}
		lines = append(lines, "ses frame 0 t 35", "ses obs", "ses send s0 t 6869 0 0 -")
		outs := sesRun(t, lines)
		r.scenarios++
		r.Cover(fmt.Sprintf("hs/headers-across-upgrade/wait=%v", wait))
		hd, ok200 := map[int]int{}, map[int]bool{}
		for i, l := range lines {
			r.Op(l, outs[i])
			if outs[i] == "-" || outs[i] == "ok" {
				continue
			}
			o := parseObs(outs[i])
			for _, e := range o.events {
				if e.who == "srv" && e.name == "headers" {
					hd[atoi(e.args[0])]++
				}
			}
			for _, rs := range o.resps {
				if rs.status == 200 {
					ok200[rs.req] = true
				}
			}
		}
		for rq := range ok200 {
			if hd[rq] != 1 {
				r.Violate("C17", fmt.Sprintf("C17/headers-event/across-upgrade/count=%d", hd[rq]), fmt.Sprintf("response %d of a session that upgraded while it was pending fired %d headers events", rq, hd[rq]), lines)
			}
		}
	}
}

// hsSharedInitial: the configured initial packet given as a plain seekable reader, two sessions whose
// handshakes both precede their first polls: each receives its own copy (C06).
// hsOverlapping: a second handshake arrives before the writer of the first one has put the open packet on the
// wire: each client still reads its own session's id (C06).
func hsOverlapping(t *testing.T, r *Rec) {
	for _, tr := range []string{"polling", "websocket"} {
		lines := []string{"ses cfg 25000 20000 1000 100000 default 1 0 - 0 - hdr", fmt.Sprintf("ses+ hs %s 4 0 -", tr), fmt.Sprintf("ses+ hs %s 4 0 -", tr), "ses obs"}
		outs := sesRun(t, lines)
		r.scenarios++
		for i, l := range lines {
			r.Op(l, outs[i])
		}
		r.Cover("hs/overlapping/" + tr)
		o := parseObs(outs[3])
		var sids []string
		for _, rs := range o.resps {
			sids = append(sids, openSid(unhx(rs.body)))
		}
		for c := 0; c < 2; c++ {
			for _, fr := range o.frames[c] {
				sids = append(sids, openSid(fr.data))
			}
		}
		if len(sids) != 2 || sids[0] != "sid0" || sids[1] != "sid1" {
			r.Violate("C06", "C06/open-packet/sid-of-another-session/"+tr, fmt.Sprintf("two overlapping handshakes: the open packets carry the ids %v, want [sid0 sid1] (sid<k> = the id of the k-th session)", sids), lines)
		}
	}
}

// openSid extracts the sid field of an open packet (the harness shows the id of the k-th session as sid<k>).
func openSid(b []byte) string {
	s := string(b)
	i := strings.Index(s, `"sid":"`)
	if i < 0 {
		return "?"
	}
	s = s[i+7:]
	if j := strings.IndexByte(s, '"'); j >= 0 {
		return s[:j]
	}
	return "?"
}

func hsSharedInitial(t *testing.T, r *Rec) {
	for _, kind := range []string{"r"} {
		lines := []string{fmt.Sprintf("ses cfg 25000 20000 1000 100000 polling 1 0 %s%s 0 - hdr", kind, hx([]byte("hello"))),
			"ses hs polling 4 0 -", "ses hs polling 4 0 -", "ses poll s0 initial", "ses poll s1 initial", "ses obs"}
		outs := sesRun(t, lines)
		r.scenarios++
		for i, l := range lines {
			r.Op(l, outs[i])
		}
		r.Cover("hs/initial-as-reader/" + kind)
		for k, idx := range []int{3, 4} {
			got := ""
			for _, rs := range parseObs(outs[idx]).resps {
				if pk, err := decodeV4Payload(unhx(rs.body)); err == nil {
					got = pkSummary(pk)
					if len(pk) > 0 && pk[0].typ == '4' && string(pk[0].data) == "hello" {
						got = "ok"
					}
				}
			}
			if got != "ok" {
				r.Violate("C06", fmt.Sprintf("C06/initial-packet/reader/session=%d", k), fmt.Sprintf("session %d: the configured initial packet (a plain reader) is not the first message of its first cycle (got %q)", k, got), lines[:idx+1])
			}
		}
	}
}

func btoi(b bool) int {
	if b {
		return 1
	}
	return 0
}

func pkSummary(pk []epkt) string {
	var xs []string
	for _, p := range pk {
		xs = append(xs, string(p.typ)+":"+string(p.data))
	}
	return strings.Join(xs, " | ")
}

// famSesHb: heartbeat timing on a grid of client delays (C07).
func famSesHb(t *testing.T, r *Rec) {
	hbExtra(t, r)
	type delay struct {
		name string
		d    func(I, T int) int // when the client answers, relative to the ping; <0: never
	}
	delays := []delay{
		{"at-once", func(I, T int) int { return 0 }},
		{"just-in-time", func(I, T int) int { return T - 1 }},
		{"never", func(I, T int) int { return -1 }},
		{"late", func(I, T int) int { return T + 1 }},
	}
	for _, tr := range []string{"polling", "websocket"} {
		for _, it := range [][2]int{{300, 200}, {1000, 50}, {25, 20000}} {
			I, T := it[0], it[1]
			for _, dl := range delays {
				for _, traffic := range []bool{false, true} {
					// --- revision 4: the server pings
					lines := []string{fmt.Sprintf("ses cfg %d %d 1000 100000 default 1 1 - 0 -", I, T), fmt.Sprintf("ses hs %s 4 0 -", tr)}
					exp := []string{} // expected (time, what)
					now := 0
					alive := true
					for cycle := 0; cycle < 3 && alive; cycle++ {
						if traffic {
							lines = append(lines, "ses send s0 t 7a 0 0 -")
							if tr == "polling" {
								lines = append(lines, "ses poll s0")
							}
						}
						lines = append(lines, fmt.Sprintf("ses adv %d", I-1), "ses adv 1")
						now += I
						exp = append(exp, fmt.Sprintf("%d:ping", now))
						if tr == "polling" {
							lines = append(lines, "ses poll s0")
						}
						d := dl.d(I, T)
						if cycle == 2 {
							d = -1 // the last ping is never answered
						}
						switch {
						case d < 0:
							lines = append(lines, fmt.Sprintf("ses adv %d", T-1), "ses adv 1", "ses adv 5")
							exp = append(exp, fmt.Sprintf("%d:close:ping_timeout", now+T))
							alive = false
						case d <= T-1:
							if d > 0 {
								lines = append(lines, fmt.Sprintf("ses adv %d", d))
							}
							now += d
							lines = append(lines, pongOp(tr))
							exp = append(exp, fmt.Sprintf("%d:heartbeat", now))
						default:
							lines = append(lines, fmt.Sprintf("ses adv %d", T-1), "ses adv 1", "ses adv 1", pongOp(tr))
							exp = append(exp, fmt.Sprintf("%d:close:ping_timeout", now+T))
							alive = false
						}
					}
					outs := sesRun(t, lines)
					r.scenarios++
					var got []string
					for i, l := range lines {
						r.Op(l, outs[i])
						for _, e := range parseObs(outs[i]).events {
							switch {
							case e.who == "s0" && e.name == "packetCreate" && e.args[0] == "ping":
								got = append(got, fmt.Sprintf("%d:ping", e.t))
							case e.who == "s0" && e.name == "heartbeat":
								got = append(got, fmt.Sprintf("%d:heartbeat", e.t))
							case e.who == "s0" && e.name == "close":
								got = append(got, fmt.Sprintf("%d:close:%s", e.t, e.args[0]))
							}
						}
					}
					r.Cover(fmt.Sprintf("hb/v4/%s/I=%d/%s/traffic=%s", tr, I, dl.name, b01(traffic)))
					if strings.Join(got, " ") != strings.Join(exp, " ") {
						r.Violate("C07", fmt.Sprintf("C07/v4/%s/%s", tr, dl.name), fmt.Sprintf("I=%d T=%d: heartbeat timeline %v, want %v", I, T, got, exp), lines)
						r.Violate("C19", fmt.Sprintf("C19/session-timers/v4/%s/%s", tr, dl.name), fmt.Sprintf("I=%d T=%d: the session's ping/deadline timers fired as %v, want %v", I, T, got, exp), lines)
					}
				}
			}
			// --- revision 3: the client pings; close at lastPing + I + T; wrong direction
			for _, npings := range []int{0, 2} {
				lines := []string{fmt.Sprintf("ses cfg %d %d 1000 100000 default 1 1 - 0 -", I, T), fmt.Sprintf("ses hs %s 3 0 -", tr)}
				now, last := 0, 0
				var exp []string
				for k := 0; k < npings; k++ {
					d := (I + T) / 2
					lines = append(lines, fmt.Sprintf("ses adv %d", d))
					now += d
					if tr == "polling" {
						lines = append(lines, "ses post s0 t 1 "+hx([]byte("1:2")))
					} else {
						lines = append(lines, "ses frame 0 t 32")
					}
					exp = append(exp, fmt.Sprintf("%d:heartbeat", now))
					last = now
				}
				lines = append(lines, fmt.Sprintf("ses adv %d", I+T-1), "ses adv 1", "ses adv 3")
				exp = append(exp, fmt.Sprintf("%d:close:ping_timeout", last+I+T))
				outs := sesRun(t, lines)
				r.scenarios++
				var got []string
				for i, l := range lines {
					r.Op(l, outs[i])
					for _, e := range parseObs(outs[i]).events {
						if e.who == "s0" && e.name == "heartbeat" {
							got = append(got, fmt.Sprintf("%d:heartbeat", e.t))
						}
						if e.who == "s0" && e.name == "close" {
							got = append(got, fmt.Sprintf("%d:close:%s", e.t, e.args[0]))
						}
					}
				}
				r.Cover(fmt.Sprintf("hb/v3/%s/I=%d/pings=%d", tr, I, npings))
				if strings.Join(got, " ") != strings.Join(exp, " ") {
					r.Violate("C07", fmt.Sprintf("C07/v3/%s", tr), fmt.Sprintf("I=%d T=%d: heartbeat timeline %v, want %v", I, T, got, exp), lines)
				}
			}
			// wrong direction: a ping on revision 4, a pong on revision 3
			for _, proto := range []int{4, 3} {
				pk := "2"
				if proto == 3 {
					pk = "3"
				}
				lines := []string{fmt.Sprintf("ses cfg %d %d 1000 100000 default 1 1 - 0 -", I, T), fmt.Sprintf("ses hs %s %d 0 -", tr, proto), "ses hs polling 4 0 -"}
				if tr == "polling" {
					body := pk
					if proto == 3 {
						body = "1:" + pk
					}
					lines = append(lines, "ses post s0 t 1 "+hx([]byte(body)))
				} else {
					lines = append(lines, "ses frame 0 t "+hx([]byte(pk)))
				}
				lines = append(lines, "ses send s1 t 6f6b 0 0 -", "ses poll s1")
				outs := sesRun(t, lines)
				r.scenarios++
				for i, l := range lines {
					r.Op(l, outs[i])
				}
				o := parseObs(outs[3])
				closed := ""
				for _, e := range o.events {
					if e.who == "s0" && e.name == "close" {
						closed = e.args[0]
					}
				}
				r.Cover(fmt.Sprintf("hb/wrong-direction/%s/%d", tr, proto))
				if closed != "transport_error" || o.states[1][0] != "open" {
					r.Violate("C07", fmt.Sprintf("C07/wrong-direction/%s/proto=%d", tr, proto), fmt.Sprintf("heartbeat in the wrong direction: session closed with %q, other session %s: %s", closed, o.states[1][0], outs[3]), lines)
				}
			}
		}
	}
}

// hbExtra: heartbeat timelines with ordinary traffic and with pongs nobody asked for.
func hbExtra(t *testing.T, r *Rec) {
	const I, T = 400, 200
	for _, tr := range []string{"polling", "websocket"} {
		msg := func(proto int) string {
			if tr == "polling" {
				if proto == 3 {
					return "ses post s0 t 1 " + hx([]byte("2:4x"))
				}
				return "ses post s0 t 1 " + hx([]byte("4x"))
			}
			return "ses frame 0 t " + hx([]byte("4x"))
		}
		poll := func(lines []string) []string {
			if tr == "polling" {
				return append(lines, "ses poll s0")
			}
			return lines
		}
		type scen struct {
			name  string
			proto int
			lines []string
			exp   []string
		}
		var scens []scen
		cfg := fmt.Sprintf("ses cfg %d %d 1000 100000 default 1 1 - 0 -", I, T)
		hs := func(proto int) []string { return []string{cfg, fmt.Sprintf("ses hs %s %d 0 -", tr, proto)} }
		// a message after the pong must not bring the cancelled deadline back
		l := hs(4)
		l = append(l, "ses adv 400")
		l = poll(l)
		l = append(l, pongOp(tr), "ses adv 100", msg(4), "ses adv 299", "ses adv 1")
		l = poll(l)
		l = append(l, pongOp(tr), "ses adv 50", msg(4), "ses adv 349", "ses adv 1")
		scens = append(scens, scen{"message-after-pong", 4, l, []string{"400:ping", "400:heartbeat", "800:ping", "800:heartbeat", "1200:ping"}})
		// a silent peer is closed at the deadline even if it keeps sending messages
		l = hs(4)
		l = append(l, "ses adv 400")
		l = poll(l)
		l = append(l, "ses adv 100", msg(4), "ses adv 99", "ses adv 1", "ses adv 5")
		scens = append(scens, scen{"message-instead-of-pong", 4, l, []string{"400:ping", "600:close:ping_timeout"}})
		// a pong nobody asked for moves the next ping one full interval on, and there is only one
		l = hs(4)
		l = append(l, "ses adv 200", pongOp(tr), "ses adv 399", "ses adv 1")
		l = poll(l)
		l = append(l, pongOp(tr), "ses adv 399", "ses adv 1")
		scens = append(scens, scen{"unsolicited-pong", 4, l, []string{"200:heartbeat", "600:ping", "600:heartbeat", "1000:ping"}})
		// two pongs for one ping: still one ping per interval, and the peer is never closed
		l = hs(4)
		l = append(l, "ses adv 400")
		l = poll(l)
		l = append(l, pongOp(tr), pongOp(tr), "ses adv 400")
		l = poll(l)
		l = append(l, pongOp(tr), pongOp(tr), "ses adv 400")
		l = poll(l)
		l = append(l, pongOp(tr), "ses adv 399")
		scens = append(scens, scen{"duplicate-pong", 4, l, []string{"400:ping", "400:heartbeat", "400:heartbeat", "800:ping", "800:heartbeat", "800:heartbeat", "1200:ping", "1200:heartbeat"}})
		// revision 3: only a ping moves the deadline, a message does not
		l = hs(3)
		l = append(l, "ses adv 100", msg(3), "ses adv 499", "ses adv 1", "ses adv 5")
		scens = append(scens, scen{"v3-message-does-not-move-deadline", 3, l, []string{"600:close:ping_timeout"}})
		if tr == "polling" {
			// revision 3 after a completed upgrade: the deadline of a ping sent on the new transport still holds
			l = hs(3)
			l = append(l, "ses ws s0 3 0", "ses frame 0 t 3270726f6265", "ses frame 0 t 35", "ses adv 100", "ses frame 0 t 32", "ses adv 599", "ses adv 1", "ses adv 5")
			scens = append(scens, scen{"v3-ping-after-upgrade-then-silence", 3, l, []string{"100:heartbeat", "700:close:ping_timeout"}})
			// revision 4 after a completed upgrade: pings go on, an unanswered one closes the session
			l = hs(4)
			l = append(l, "ses ws s0 4 0", "ses frame 0 t 3270726f6265", "ses frame 0 t 35", "ses adv 400", "ses frame 0 t 33", "ses adv 400", "ses adv 199", "ses adv 1", "ses adv 5")
			scens = append(scens, scen{"v4-heartbeat-after-upgrade", 4, l, []string{"400:ping", "400:heartbeat", "800:ping", "1000:close:ping_timeout"}})
			// an upgrade attempt that fails (unexpected packet, candidate dropped) leaves the armed deadline alone:
			// only a completed upgrade cancels it
			l = hs(4)
			l = append(l, "ses adv 400", "ses poll s0", "ses ws s0 4 0", "ses frame 0 t 7a7a", "ses adv 199", "ses adv 1", "ses adv 5")
			scens = append(scens, scen{"v4-failed-candidate-keeps-deadline", 4, l, []string{"400:ping", "600:close:ping_timeout"}})
			l = hs(4)
			l = append(l, "ses adv 400", "ses poll s0", "ses ws s0 4 0", "ses frame 0 t 3270726f6265", "ses drop 0", "ses adv 199", "ses adv 1", "ses adv 5")
			scens = append(scens, scen{"v4-dropped-candidate-keeps-deadline", 4, l, []string{"400:ping", "600:close:ping_timeout"}})
			l = hs(3)
			l = append(l, "ses adv 100", "ses ws s0 3 0", "ses drop 0", "ses adv 499", "ses adv 1", "ses adv 5")
			scens = append(scens, scen{"v3-dropped-candidate-keeps-deadline", 3, l, []string{"600:close:ping_timeout"}})
		}
		for _, sc := range scens {
			outs := sesRun(t, sc.lines)
			r.scenarios++
			var got []string
			for i, ln := range sc.lines {
				r.Op(ln, outs[i])
				for _, e := range parseObs(outs[i]).events {
					switch {
					case e.who == "s0" && e.name == "packetCreate" && e.args[0] == "ping":
						got = append(got, fmt.Sprintf("%d:ping", e.t))
					case e.who == "s0" && e.name == "heartbeat":
						got = append(got, fmt.Sprintf("%d:heartbeat", e.t))
					case e.who == "s0" && e.name == "close":
						got = append(got, fmt.Sprintf("%d:close:%s", e.t, e.args[0]))
					}
				}
			}
			r.Cover(fmt.Sprintf("hb/extra/%s/%s", tr, sc.name))
			if strings.Join(got, " ") != strings.Join(sc.exp, " ") {
				r.Violate("C07", fmt.Sprintf("C07/%s/%s", sc.name, tr), fmt.Sprintf("I=%d T=%d: heartbeat timeline %v, want %v", I, T, got, sc.exp), sc.lines)
				// the same timeline is what C19 promises of the session's timers: a refreshed timer fires one
				// full period after the refresh and only once, a cancelled one never
				r.Violate("C19", fmt.Sprintf("C19/session-timers/%s/%s", sc.name, tr), fmt.Sprintf("I=%d T=%d: the session's ping/deadline timers fired as %v, want %v", I, T, got, sc.exp), sc.lines)
				// the revision chosen at the handshake fixes the heartbeat mode for the life of the session (C06):
				// a revision-3 session is never pinged by the server
				for _, g := range got {
					if sc.proto == 3 && strings.HasSuffix(g, ":ping") {
						r.Violate("C06", fmt.Sprintf("C06/heartbeat-mode/revision-3-session-pinged-by-server/%s/%s", sc.name, tr), fmt.Sprintf("a revision-3 session was sent a ping by the server (%v): its revision no longer determines its heartbeat mode", got), sc.lines)
						break
					}
				}
				// a peer that has gone silent must be given up at its deadline: a session (its reader goroutine, its
				// table entry) that outlives a dead peer for good is held by client input alone (C09)
				wantClose, gotClose := false, false
				for _, e := range sc.exp {
					wantClose = wantClose || strings.Contains(e, ":close:")
				}
				for _, g := range got {
					gotClose = gotClose || strings.Contains(g, ":close:")
				}
				if wantClose && !gotClose {
					r.Violate("C09", fmt.Sprintf("C09/silent-peer-never-given-up/%s/%s", sc.name, tr), fmt.Sprintf("I=%d T=%d: the peer went silent and the session was never closed (%v, want %v)", I, T, got, sc.exp), sc.lines)
				}
			}
		}
	}
}

func pongOp(tr string) string {
	if tr == "polling" {
		return "ses post s0 t 1 33"
	}
	return "ses frame 0 t 33"
}

func init() {
	families["ses-hostile"] = famSesHostile
}

// famSesHostile: client inputs that must not crash, hang or starve the server
// (C09), the payload limit on every inbound path (C10), and data requests that
// must always be answered (C11). Every scenario runs in its own child process.
func famSesHostile(t *testing.T, r *Rec) {
	type scen struct {
		name   string
		prop   string
		lines  []string
		canary int // session ordinal of the bystander
	}
	var scens []scen
	cfg := "ses cfg 300 200 1000 100 default 1 1 - 0 -"
	canaryOps := func(k int) []string {
		return []string{fmt.Sprintf("ses send s%d t 63616e617279 0 0 -", k), fmt.Sprintf("ses poll s%d", k)}
	}
	add := func(name, prop string, body ...string) {
		lines := append([]string{cfg, "ses hs polling 4 0 -"}, body...) // s0 is the bystander
		lines = append(lines, canaryOps(0)...)
		scens = append(scens, scen{name, prop, lines, 0})
	}
	// revision mismatch between handshake and upgrade, then heartbeats of the other revision
	add("eio4-session-upgraded-over-eio3-ws/ping", "C09", "ses hs polling 4 0 -", "ses ws s1 3 0", "ses frame 0 t 3270726f6265", "ses poll s1", "ses frame 0 t 35", "ses frame 0 t 32")
	add("eio3-session-upgraded-over-eio4-ws/pong", "C09", "ses hs polling 3 0 -", "ses ws s1 4 0", "ses frame 0 t 3270726f6265", "ses poll s1", "ses frame 0 t 35", "ses frame 0 t 33")
	add("eio4-ws-session/ping-before-first-server-ping", "C09", "ses hs websocket 4 0 -", "ses frame 0 t 32")
	add("eio3-ws-session/pong", "C09", "ses hs websocket 3 0 -", "ses frame 0 t 33")
	// frames that do not decode, in every shape: empty, not base64, unknown type
	add("undecodable-frame/empty-text", "C03", "ses hs websocket 4 0 -", "ses frame 0 t -", "ses obs")
	add("undecodable-frame/bad-base64-v4", "C03", "ses hs websocket 4 1 -", "ses frame 0 t "+hx([]byte("b%%%%")), "ses obs")
	add("undecodable-frame/bad-base64-v3", "C03", "ses hs websocket 3 1 -", "ses frame 0 t "+hx([]byte("b4%%%%")), "ses obs")
	add("undecodable-frame/unknown-type", "C03", "ses hs websocket 4 0 -", "ses frame 0 t 78", "ses obs")
	add("undecodable-frame/empty-binary-v3", "C03", "ses hs websocket 3 0 -", "ses frame 0 b -", "ses obs")
	// inflated and truncated length prefixes
	add("v3-binary-body/12-digit-length", "C09", "ses hs polling 3 0 -", "ses post s1 b 1 00090909090909090909090909ff")
	add("v3-binary-body/12-digit-length-binary-packet", "C09", "ses hs polling 3 0 -", "ses post s1 b 1 01090909090909090909090909ff04")
	add("v3-binary-body/negative-length-binary-packet", "C09", "ses hs polling 3 0 -", "ses post s1 b 1 01fd05ff0401020304")
	add("v3-binary-body/negative-length-string-packet", "C09", "ses hs polling 3 0 -", "ses post s1 b 1 00fd05ff3461626364")
	add("v3-binary-body/no-terminator", "C09", "ses hs polling 3 0 -", "ses post s1 b 1 000102")
	add("v3-binary-body/two-packets", "C09", "ses hs polling 3 0 -", "ses post s1 b 1 0003ff34c3a90102ff0405")
	add("v3-string-body/huge-length", "C09", "ses hs polling 3 0 -", "ses post s1 t 1 "+hx([]byte("999999999999:4a")))
	add("v3-string-body/negative-length", "C09", "ses hs polling 3 0 -", "ses post s1 t 1 "+hx([]byte("-5:4abc")))
	add("v3-string-body/no-colon", "C09", "ses hs polling 3 0 -", "ses post s1 t 1 "+hx([]byte("4abc")))
	add("v4-body/invalid-utf8-and-base64", "C09", "ses hs polling 4 0 -", "ses post s1 t 1 34fffe1e62212121")
	add("v4-body/only-separators", "C09", "ses hs polling 4 0 -", "ses post s1 t 1 1e1e1e")
	add("v4-body/empty", "C09", "ses hs polling 4 0 -", "ses post s1 t 1 -")
	add("v4-body/unexpected-types", "C09", "ses hs polling 4 0 -", "ses post s1 t 1 "+hx([]byte("0{}\x1e5\x1e6\x1e7x\x1e4ok")))
	add("ws-frames/unexpected-types-and-empty", "C09", "ses hs websocket 4 0 -", "ses frame 0 t 30", "ses frame 0 t 35", "ses frame 0 t -", "ses frame 0 b -", "ses frame 0 t 37", "ses frame 0 t 346f6b")
	add("ws-v3-frames/binary-garbage", "C09", "ses hs websocket 3 0 -", "ses frame 0 b ff00", "ses frame 0 b -", "ses frame 0 t 62", "ses frame 0 t 6234")
	for _, ae := range []string{"gzip;q", "gzip;q=", "gzip;=1", ";", "gzip;;q=0.5;", "br;q=x, gzip"} {
		add("accept-encoding/"+ae, "C09", "ses hs polling 4 0 -", "ses send s1 t "+hx(append([]byte("m"), bytes_repeat('h', 2000)...))+" 1 0 -", "ses poll s1 "+hx([]byte(ae)), "ses obs")
	}
	add("poll-aborted/handler-released", "C09", "ses hs polling 4 0 -", "ses poll s1", "ses abort 2", "ses adv 5")
	add("post-after-close", "C09", "ses hs polling 4 0 -", "ses close s1 1", "ses post s1 t 1 346869", "ses poll s1")
	// C11: every accepted data request gets exactly one response
	add("v4-post/binary-content-type", "C11", "ses hs polling 4 0 -", "ses post s1 b 1 346869")
	add("v3-post/binary-content-type", "C11", "ses hs polling 3 0 -", "ses post s1 b 1 0002ff3468")
	add("overlapping-posts", "C11", "ses hs polling 4 0 -", "ses post s1 t 1 346869", "ses post s1 t 1 346869")
	// C10: the payload limit (100 bytes here)
	for _, sz := range []int{99, 100, 101, 250, 5000} {
		for _, declared := range []bool{true, false} {
			body := append([]byte("4"), bytes_repeat('x', sz-1)...)
			add(fmt.Sprintf("limit/post/size=%d/declared=%s", sz, b01(declared)), "C10", "ses hs polling 4 0 -", fmt.Sprintf("ses post s1 t %s %s", b01(declared), hx(body)))
		}
		body := append([]byte("4"), bytes_repeat('y', sz-1)...)
		add(fmt.Sprintf("limit/ws-frame/size=%d", sz), "C10", "ses hs websocket 4 0 -", "ses frame 0 t "+hx(body), "ses frame 0 t 346f6b")
	}
	// a frame that does not decode on one connection, then a frame within the limit on another: what the second session
	// is handed is its own frame and nothing of the first connection's (read buffers must not travel between connections)
	for _, filler := range []int{20, 90} {
		add(fmt.Sprintf("limit/ws-frame/after-undecodable-frame-elsewhere/%d", filler), "C10", "ses hs websocket 4 0 -", "ses hs websocket 4 0 -",
			"ses frame 0 t "+hx(append([]byte("x4"), bytes_repeat('p', filler)...)), "ses frame 1 t "+hx(append([]byte("4"), bytes_repeat('y', filler)...)), "ses frame 1 t 346f6b")
	}
	// the limit on the JSONP flavour of polling (the body is the form field d=<payload>)
	for _, sz := range []int{97, 98, 99, 197, 299, 5000} {
		add(fmt.Sprintf("limit/jsonp-post/size=%d", sz+2), "C10", "ses hs polling 4 0 "+hx([]byte("7")), "ses postj s1 "+hx(append([]byte("4"), bytes_repeat('j', sz-1)...)))
	}
	// the limit on a connection that became the session's transport through an upgrade
	for _, sz := range []int{100, 101, 5000} {
		body := append([]byte("4"), bytes_repeat('z', sz-1)...)
		add(fmt.Sprintf("limit/ws-frame-after-upgrade/size=%d", sz), "C10", "ses hs polling 4 0 -", "ses ws s1 4 0", "ses frame 0 t 3270726f6265",
			"ses adv 100", "ses poll s1", "ses frame 0 t 35", "ses frame 0 t "+hx(body), "ses frame 0 t 346f6b")
	}
	// a declared length within the limit, a body that yields more (e.g. an inflating middleware in front of the engine)
	add("limit/post/under-declared", "C10", "ses hs polling 4 0 -", "ses post s1 t d50 "+hx(append([]byte("4"), bytes_repeat('u', 4999)...)))
	add("limit/multi/under-declared", "C10", "ses hs polling 4 0 -", "ses post s1 t d90 "+hx([]byte("4"+string(bytes_repeat('a', 60))+"\x1e4"+string(bytes_repeat('b', 60))+"\x1e4"+string(bytes_repeat('c', 60)))))
	// revision 3 decodes text payloads as UTF-8 a second time: a malformed byte becomes U+FFFD (three bytes), so what is
	// delivered can be up to three times what was read
	add("limit/post/v3-malformed-utf8", "C10", "ses hs polling 3 0 -", "ses post s1 t 1 "+hx(append([]byte("91:4"), bytes_repeat(0xff, 90)...)))
	add("limit/ws-frame/v3-malformed-utf8", "C10", "ses hs websocket 3 0 -", "ses frame 0 t "+hx(append([]byte("4"), bytes_repeat(0xff, 99)...)), "ses frame 0 t 346f6b")
	add("limit/post/v3-two-byte-characters", "C10", "ses hs polling 3 0 -", "ses post s1 t 1 "+hx(append([]byte("46:4"), bytes_repeat2("\xc3\xa9", 45)...)))
	add("limit/post/multi-packet-above", "C10", "ses hs polling 4 0 -", "ses post s1 t 1 "+hx([]byte("4"+string(bytes_repeat('a', 60))+"\x1e4"+string(bytes_repeat('b', 60)))))

	for _, sc := range scens {
		outs, fault := runIsolated(sc.lines, 8*time.Second)
		r.scenarios++
		for i, l := range sc.lines {
			r.Op(l, outs[i])
		}
		r.Cover("hostile/" + sc.name)
		if fault != "" {
			what := "crashed the process"
			if fault == "hang" {
				what = "made the server hang or spin (no answer within 8 s of wall-clock time)"
			}
			r.Violate("C09", "C09/"+strings.SplitN(fault, ":", 2)[0]+"/"+sc.name, "client input "+what+": "+fault, sc.lines)
			continue
		}
		for i, out := range outs {
			if strings.Contains(out, "PANIC:") {
				r.Violate("C09", "C09/handler-panic/"+sc.name, "client input made a request handler panic: "+out[:min(len(out), 200)], sc.lines[:i+1])
			}
		}
		last := parseObs(outs[len(outs)-1])
		// the bystander still exchanges messages
		okCanary := false
		for _, rs := range last.resps {
			if strings.Contains(rs.body, hx([]byte("4canary"))) {
				okCanary = true
			}
		}
		if !okCanary || last.states[sc.canary][0] != "open" {
			r.Violate("C09", "C09/bystander-disturbed/"+sc.name, "another session stopped exchanging messages: "+outs[len(outs)-1], sc.lines)
		}
		// no handler is left parked once its request was answered or aborted (the bystander has none pending)
		if last.pend != "-" && sc.prop != "C11" {
			r.Violate("C09", "C09/handler-stuck/"+sc.name, "requests still parked at the end: "+last.pend, sc.lines)
		}
		switch sc.prop {
		case "C03":
			// a frame that does not decode is a parse error of that session, whatever shape the malformed input has
			reasons := []string{}
			for _, out := range outs {
				if out == "-" || out == "ok" {
					continue
				}
				for _, e := range parseObs(out).events {
					if e.who == "s1" && e.name == "close" {
						reasons = append(reasons, e.args[0])
					}
				}
			}
			if got := strings.Join(reasons, ","); got != "parse_error" {
				r.Violate("C03", "C03/reason-of-cause/undecodable-frame/"+sc.name, "an undecodable frame closed the session with close events ["+got+"], want exactly one, reason parse error", sc.lines)
			}
		case "C11":
			for i, l := range sc.lines {
				if strings.Fields(l)[1] != "post" {
					continue
				}
				o := parseObs(outs[i])
				if len(o.resps) != 1 {
					r.Violate("C11", "C11/no-response/"+sc.name, fmt.Sprintf("data request got %d responses: %s", len(o.resps), outs[i]), sc.lines[:i+1])
				}
			}
		case "C10":
			for i, l := range sc.lines {
				f := strings.Fields(l)
				o := parseObs(outs[i])
				size := 0
				if f[1] == "postj" {
					size = len(unhx(f[3])) + 2
					f[1] = "post"
				} else if f[1] == "post" {
					size = len(unhx(f[5]))
				} else if f[1] == "frame" {
					size = len(unhx(f[4]))
				} else {
					continue
				}
				for _, e := range o.events {
					if e.name == "message" && len(unhx(e.args[1])) > 100 {
						sg := "C10/delivered/" + sc.name
						if len(unhx(e.args[1])) > 3*size {
							// beyond what replacing every malformed byte by U+FFFD can produce (the recorded finding)
							sg = "C10/delivered-beyond-replacement/" + sc.name
						}
						r.Violate("C10", sg, fmt.Sprintf("a message of %d bytes was delivered with maxPayload 100 (%d bytes were sent)", len(unhx(e.args[1])), size), sc.lines[:i+1])
						if len(unhx(e.args[1])) > 10*100 {
							// a connection that buffers whatever one client sends, far beyond the configured limit, lets that
							// client take the server's memory: the worst outcome allowed is that its session is closed
							r.Violate("C09", "C09/unbounded-buffering/"+sc.name, fmt.Sprintf("the server buffered and delivered a message of %d bytes on a connection limited to 100: one client can exhaust the server instead of being closed", len(unhx(e.args[1]))), sc.lines[:i+1])
						}
					}
				}
				if f[1] == "post" && size > 100 {
					if len(o.resps) != 1 || o.resps[0].status != 413 {
						r.Violate("C10", "C10/polling-not-413/"+sc.name, "oversized body not refused with 413: "+outs[i][:min(len(outs[i]), 200)], sc.lines[:i+1])
					}
					for _, tok := range strings.Fields(outs[i]) {
						if strings.HasPrefix(tok, "B:") {
							consumed := atoi(strings.Split(tok, ":")[2])
							if consumed > 100+64 {
								r.Violate("C10", "C10/consumed-beyond-limit/"+sc.name, fmt.Sprintf("server consumed %d bytes of an oversized body (limit 100)", consumed), sc.lines[:i+1])
							}
						}
					}
				}
				if f[1] == "post" && size <= 100 && (len(o.resps) != 1 || o.resps[0].status != 200) {
					r.Violate("C10", "C10/within-limit-refused/"+sc.name, "body within the limit refused: "+outs[i][:min(len(outs[i]), 200)], sc.lines[:i+1])
				}
			}
		}
	}
}

func bytes_repeat2(u string, n int) []byte {
	return []byte(strings.Repeat(u, n))
}

func bytes_repeat(c byte, n int) []byte {
	if n < 0 {
		n = 0
	}
	b := make([]byte, n)
	for i := range b {
		b[i] = c
	}
	return b
}

func init() {
	families["ses-upg"] = famSesUpg
}

// famSesUpg: every candidate script over the packet alphabet (C08), with
// messages flowing before, during and after (C01/C02 across the switch).
func famSesUpg(t *testing.T, r *Rec) {
	alphabet := []string{"probe", "ping", "pong", "msg", "upgrade", "noop", "garbage", "drop", "silence"}
	frameOf := map[string]string{"probe": "3270726f6265", "ping": "32", "pong": "33", "msg": "346e6f", "upgrade": "35", "noop": "36", "garbage": "7a7a"}
	var scripts [][]string
	for _, a := range alphabet {
		scripts = append(scripts, []string{a})
		for _, b := range alphabet {
			scripts = append(scripts, []string{a, b})
			if a == "probe" {
				for _, c := range alphabet {
					if r.thorough() || r.rng.IntN(2) == 0 {
						scripts = append(scripts, []string{a, b, c})
					}
				}
			}
		}
	}
	for si, script := range scripts {
		pollPending := si%2 == 0
		U := 1000
		lines := []string{fmt.Sprintf("ses cfg 25000 20000 %d 100000 default 1 0 - 0 -", U), "ses hs polling 4 0 -", "ses send s0 t 6d31 0 0 -", "ses poll s0"}
		nreq := 2
		if pollPending {
			lines = append(lines, "ses poll s0")
			nreq++
		}
		lines = append(lines, "ses ws s0 4 0") // candidate = conn 0
		candAlive, upgraded, probed := true, false, false
		var expectPong int
		for _, sym := range script {
			if !candAlive || upgraded {
				break
			}
			switch sym {
			case "drop":
				lines = append(lines, "ses drop 0")
				candAlive = false
			case "silence":
				lines = append(lines, fmt.Sprintf("ses adv %d", U+1))
				candAlive = false
			default:
				lines = append(lines, "ses frame 0 t "+frameOf[sym])
				switch sym {
				case "probe":
					probed = true
					expectPong++
					lines = append(lines, "ses adv 100") // the check tick releases a pending poll
				case "upgrade":
					upgraded = true
				default:
					candAlive = false
				}
			}
		}
		if probed && candAlive && !upgraded {
			// the client polls again while the candidate is still probing: the next check tick releases this poll too
			lines = append(lines, "ses poll s0", "ses adv 100")
			nreq++
		}
		lines = append(lines, "ses send s0 t 6d32 0 0 -")
		lines = append(lines, "ses obs")
		mid := len(lines) - 1
		idleAt := -1
		if !upgraded {
			if candAlive {
				lines = append(lines, "ses drop 0")
			}
			// the attempt is over: a poll with nothing to deliver stays pending (no timer of the attempt is left ticking)
			if !(pollPending && !probed) {
				lines = append(lines, "ses poll s0") // m2 was buffered: this poll fetches it
			}
			lines = append(lines, "ses poll s0", "ses adv 350")
			idleAt = len(lines) - 1
			lines = append(lines, "ses send s0 t 6d3278 0 0 -")
			// the session must still be usable on polling and accept a fresh candidate that follows the protocol
			lines = append(lines, "ses poll s0", "ses post s0 t 1 346331", "ses ws s0 4 0", "ses frame 1 t 3270726f6265", "ses adv 100", "ses poll s0", "ses frame 1 t 35")
		}
		lines = append(lines, "ses send s0 t 6d33 0 0 -", "ses frame "+fmt.Sprint(btoi(!upgraded))+" t 346332", "ses obs")
		outs := sesRun(t, lines)
		r.scenarios++
		for i, l := range lines {
			r.Op(l, outs[i])
		}
		name := strings.Join(script, ",")
		r.Cover(fmt.Sprintf("upg/%s/poll=%s", name, b01(pollPending)))
		sig := func(cl string) string { return fmt.Sprintf("C08/%s/script=%s", cl, name) }
		if lastBubbleLeak != "" {
			r.Violate("C09", "C09/goroutine-left-behind/upgrade-attempt/script="+name, "after the candidate's frames, with every connection closed and 40 s of silence, goroutines of the server are still there (a timer of the attempt was never cancelled)", lines)
		}
		// collect
		var clientMsgs, serverMsgs []string
		upgradeEvents, upgradingEvents, pongs := 0, 0, 0
		closedSession := ""
		endedConn := map[int]bool{}
		for i, out := range outs {
			o := parseObs(out)
			for c := range o.ended {
				endedConn[c] = true
			}
			for _, e := range o.events {
				if e.who != "s0" {
					continue
				}
				switch e.name {
				case "upgrade":
					upgradeEvents++
				case "upgrading":
					upgradingEvents++
				case "message":
					serverMsgs = append(serverMsgs, string(unhx(e.args[1])))
				case "close":
					closedSession = e.args[0]
				}
			}
			for _, rs := range o.resps {
				pk, _ := decodeV4Payload(unhx(rs.body))
				for _, p := range pk {
					if p.typ == '4' {
						clientMsgs = append(clientMsgs, string(p.data))
					}
				}
			}
			for c, frs := range o.frames {
				for _, fr := range frs {
					if string(fr.data) == "3probe" {
						pongs++
					}
					if fr.kind == "t" && len(fr.data) > 0 && fr.data[0] == '4' {
						clientMsgs = append(clientMsgs, string(fr.data[1:]))
					}
					_ = c
				}
			}
			if i == mid {
				st := o.states[0]
				wantTr, wantFlags := "polling", "00"
				if upgraded {
					wantTr, wantFlags = "websocket", "01"
				} else if candAlive {
					wantFlags = "10"
				}
				if st[0] != "open" || st[1] != wantTr || st[2] != wantFlags {
					cl := "failed-candidate-cost-the-session"
					if upgraded {
						cl = "conformant-candidate-did-not-switch"
					} else if st[1] == "websocket" {
						cl = "switched-without-upgrade-packet"
					}
					r.Violate("C08", sig(cl), fmt.Sprintf("after the script the session is %v, want open/%s/%s", st, wantTr, wantFlags), lines[:i+1])
				}
				if !candAlive && !upgraded && !endedConn[0] {
					r.Violate("C08", sig("candidate-not-closed"), "the failed candidate was not closed: "+out, lines[:i+1])
				}
			}
		}
		last := parseObs(outs[len(outs)-1])
		if closedSession != "" || last.states[0][0] != "open" {
			r.Violate("C08", sig("session-closed"), "the session did not survive: close reason "+closedSession, lines)
		}
		if last.states[0][1] != "websocket" || last.states[0][2] != "01" || upgradeEvents != 1 {
			r.Violate("C08", sig("no-upgrade-in-the-end"), fmt.Sprintf("a protocol-conformant candidate did not complete the switch exactly once: state %v, %d upgrade events", last.states[0], upgradeEvents), lines)
		}
		if pongs < expectPong {
			r.Violate("C08", sig("probe-unanswered"), fmt.Sprintf("%d probe pings, %d probe pongs", expectPong, pongs), lines)
		}
		if idleAt >= 0 {
			o := parseObs(outs[idleAt])
			if o.pend == "-" || len(o.resps) > 0 {
				r.Violate("C08", sig("idle-poll-answered-after-failed-attempt"), "after the attempt was over an idle poll was answered although nothing was sent: "+outs[idleAt], lines[:idleAt+1])
				r.Violate("C09", "C09/busy-poll-after-upgrade-attempt/script="+name, "after an abandoned upgrade attempt an idle poll is answered at once (a timer of the attempt keeps ticking): "+outs[idleAt], lines[:idleAt+1])
			}
		}
		wantClient := "m1,m2,m3"
		if idleAt >= 0 {
			wantClient = "m1,m2,m2x,m3"
		}
		if strings.Join(clientMsgs, ",") != wantClient {
			r.Violate("C08", sig("messages-to-client"), fmt.Sprintf("client received %v across the upgrade, want %s", clientMsgs, wantClient), lines)
		}
		wantSrv := "c2"
		if !upgraded {
			wantSrv = "c1,c2"
		}
		if strings.Join(serverMsgs, ",") != wantSrv {
			r.Violate("C08", sig("messages-to-server"), fmt.Sprintf("application received %v, want %s (a message on a candidate is never delivered)", serverMsgs, wantSrv), lines)
		}
	}
	// candidates that must be refused: a second one while upgrading, one for an upgraded session, one for an unknown session
	{
		lines := []string{"ses cfg 25000 20000 1000 100000 default 1 0 - 0 -", "ses hs polling 4 0 -", "ses ws s0 4 0", "ses frame 0 t 3270726f6265", "ses ws s0 4 0", "ses frame 0 t 35", "ses ws s0 4 0", "ses obs"}
		outs := sesRun(t, lines)
		r.scenarios++
		for i, l := range lines {
			r.Op(l, outs[i])
		}
		r.Cover("upg/refused-candidates")
		if parseObs(outs[4]).ended[1] == "" {
			r.Violate("C08", "C08/second-candidate-entertained", "a second candidate while one is upgrading was not closed: "+outs[4], lines[:5])
		}
		if parseObs(outs[6]).ended[2] == "" {
			r.Violate("C08", "C08/candidate-after-upgrade-entertained", "a candidate for an upgraded session was not closed: "+outs[6], lines[:7])
		}
		if st := parseObs(outs[7]).states[0]; st[0] != "open" || st[1] != "websocket" {
			r.Violate("C08", "C08/refused-candidate-disturbed-session", fmt.Sprintf("session is %v", st), lines)
		}
	}
	// a second candidate before the first one has probed
	{
		lines := []string{"ses cfg 25000 20000 1000 100000 default 1 0 - 0 -", "ses hs polling 4 0 -", "ses ws s0 4 0", "ses ws s0 4 0",
			"ses frame 1 t 3270726f6265", "ses frame 1 t 35", "ses frame 0 t 3270726f6265", "ses adv 100", "ses poll s0", "ses frame 0 t 35", "ses obs"}
		outs := sesRun(t, lines)
		r.scenarios++
		upgrades, upgradings := 0, 0
		for i, l := range lines {
			r.Op(l, outs[i])
			for _, e := range parseObs(outs[i]).events {
				if e.who == "s0" && e.name == "upgrade" {
					upgrades++
				}
				if e.who == "s0" && e.name == "upgrading" {
					upgradings++
				}
			}
		}
		r.Cover("upg/second-candidate-before-probe")
		if parseObs(outs[3]).ended[1] == "" {
			r.Violate("C08", "C08/second-candidate-before-probe-entertained", "a second candidate arriving before the first one's probe was not closed: "+outs[3], lines[:4])
		}
		if upgrades != 1 || upgradings != 1 {
			r.Violate("C08", "C08/switch-count", fmt.Sprintf("%d upgrading and %d upgrade events, want 1 and 1", upgradings, upgrades), lines)
		}
	}
	// long after a completed upgrade (every timer of the attempt has had its chance) the session is still there;
	// then it closes, and the registry forgets it
	for _, how := range []string{"completed", "failed", "timed-out"} {
		for _, closeHow := range []string{"app", "peer"} {
			U := 1000
			lines := []string{fmt.Sprintf("ses cfg 25000 20000 %d 100000 default 1 0 - 0 -", U), "ses hs polling 4 0 -", "ses ws s0 4 0"}
			switch how {
			case "completed":
				lines = append(lines, "ses frame 0 t 3270726f6265", "ses adv 100", "ses poll s0", "ses frame 0 t 35")
			case "failed":
				lines = append(lines, "ses frame 0 t 7a7a")
			case "timed-out":
				lines = append(lines, fmt.Sprintf("ses adv %d", U+1))
			}
			lines = append(lines, fmt.Sprintf("ses adv %d", 3*U), "ses send s0 t 6d31 0 0 -")
			if how == "completed" {
				lines = append(lines, "ses frame 0 t 346331")
			} else {
				lines = append(lines, "ses poll s0", "ses post s0 t 1 346331")
			}
			lines = append(lines, "ses obs")
			mid := len(lines) - 1
			switch {
			case closeHow == "app":
				lines = append(lines, "ses close s0 1")
			case how == "completed":
				lines = append(lines, "ses drop 0")
			default:
				lines = append(lines, "ses post s0 t 1 31")
			}
			lines = append(lines, "ses obs", "ses poll s0")
			outs := sesRun(t, lines)
			r.scenarios++
			var srvMsgs []string
			for i, l := range lines {
				r.Op(l, outs[i])
				for _, e := range parseObs(outs[i]).events {
					if e.who == "s0" && e.name == "message" {
						srvMsgs = append(srvMsgs, string(unhx(e.args[1])))
					}
				}
			}
			r.Cover(fmt.Sprintf("upg/afterwards/%s/%s", how, closeHow))
			m := parseObs(outs[mid])
			wantTr := "polling"
			if how == "completed" {
				wantTr = "websocket"
			}
			if st := m.states[0]; st[0] != "open" || st[1] != wantTr || strings.Join(srvMsgs, ",") != "c1" {
				r.Violate("C08", fmt.Sprintf("C08/session-lost-after-attempt/%s", how), fmt.Sprintf("long after a %s upgrade attempt the session is %v (messages delivered: %v), want open/%s and c1", how, st, srvMsgs, wantTr), lines[:mid+1])
			}
			end := parseObs(outs[len(outs)-2])
			if end.states[0][0] != "closed" || end.reg != "-:0" {
				r.Violate("C04", fmt.Sprintf("C04/closed-session-still-registered/after-%s-upgrade", how), fmt.Sprintf("after the close the session is %v and the registry is %s", end.states[0], end.reg), lines[:len(lines)-1])
			}
			last := parseObs(outs[len(outs)-1])
			okUnknown := false
			for _, rs := range last.resps {
				if rs.status == 400 && strings.Contains(string(unhx(rs.body)), "Session ID unknown") {
					okUnknown = true
				}
			}
			if !okUnknown {
				r.Violate("C04", fmt.Sprintf("C04/closed-session-reachable/after-%s-upgrade", how), "a poll naming the closed session was not answered 'Session ID unknown': "+outs[len(outs)-1], lines)
			}
		}
	}
}

func init() {
	families["ses-resp"] = famSesResp
}

// acceptNames reports which codings an Accept-Encoding value names (token level, q=0 excluded).
func acceptNames(ae string) map[string]bool {
	out := map[string]bool{}
	for _, part := range strings.Split(ae, ",") {
		f := strings.Split(strings.TrimSpace(part), ";")
		name := strings.ToLower(strings.TrimSpace(f[0]))
		ok := name != ""
		for _, p := range f[1:] {
			p = strings.ReplaceAll(strings.TrimSpace(p), " ", "")
			if p == "q=0" || p == "q=0.0" || p == "q=0.00" || p == "q=0.000" || p == "q=0." {
				ok = false
			}
		}
		if ok {
			out[name] = true
		}
	}
	return out
}

// famSesResp: poll responses as HTTP messages (C16): payload, Content-Type,
// Content-Length, Content-Encoding negotiation, and the JSONP wrapper.
func famSesResp(t *testing.T, r *Rec) {
	aes := []string{"-", "gzip", "deflate", "br", "zstd", "gzip, deflate, br", "identity", "abracadabra", "x-gzip2", "gzip;q=0", "deflate;q=0, gzip", "br;q=0.5, zstd;q=0.1", "GZIP",
		"gzip;q=0.0", "gzip;q=0.000, br;q=1.0", "gzip;q=0., deflate", "gzip; q=0.00 , zstd"}
	for _, thr := range []string{"-", "16", "100000"} {
		for ai, ae := range aes {
			for _, compressFlag := range []bool{true, false} {
				size := []int{4, 40, 400, 2000}[(ai+len(thr))%4]
				msg := append([]byte("m"), bytes_repeat('a'+byte(ai%20), size)...)
				// two cycles on the same session, each with its own Accept-Encoding: the coding of a
				// response is negotiated from the request it answers, not from an earlier one
				ae2 := aes[(ai+5)%len(aes)]
				pollLine := func(a string) string {
					if a == "-" {
						return "ses poll s0"
					}
					return fmt.Sprintf("ses poll s0 %s", hx([]byte(a)))
				}
				lines := []string{fmt.Sprintf("ses cfg 25000 20000 1000 100000 default 1 0 - 0 %s", thr), "ses hs polling 4 0 -",
					fmt.Sprintf("ses send s0 t %s %s 0 -", hx(msg), b01(compressFlag)), pollLine(ae),
					fmt.Sprintf("ses send s0 t %s %s 0 -", hx(msg), b01(compressFlag)), pollLine(ae2)}
				outs := sesRun(t, lines)
				r.scenarios++
				for i, l := range lines {
					r.Op(l, outs[i])
				}
				r.Cover(fmt.Sprintf("resp/thr=%s/ae=%s/compress=%s/size=%d", thr, strings.ReplaceAll(ae, " ", ""), b01(compressFlag), size))
				for _, round := range []struct {
					idx int
					ae  string
				}{{3, ae}, {5, ae2}} {
					ae := round.ae
					o := parseObs(outs[round.idx])
					if len(o.resps) != 1 {
						// a batch was waiting and the transport was idle: this poll is answered at once, whatever its Accept-Encoding says
						for _, pr := range []string{"C11", "C16", "C01"} {
							r.Violate(pr, pr+"/poll-with-data-waiting-not-answered", fmt.Sprintf("a poll with Accept-Encoding %q found a batch waiting and got %d responses", ae, len(o.resps)), lines[:round.idx+1])
						}
						continue
					}
					rs := o.resps[0]
					ce := strings.SplitN(rs.ce, "!", 2)
					replay := lines[:round.idx+1]
					if len(ce) > 1 && strings.HasPrefix(ce[1], "undecodable") {
						r.Violate("C16", "C16/content-encoding/"+ce[0]+"/body-is-not-that-coding", "the body does not decode under the Content-Encoding the response names ("+ce[0]+")", replay)
						continue
					}
					if len(ce) > 1 {
						r.Violate("C16", "C16/content-length", "Content-Length differs from the bytes sent: "+ce[1], replay)
					}
					if want := hx(append([]byte("4"), msg...)); rs.body != want {
						r.Violate("C16", "C16/payload", "the (decoded) body is not the payload of the batch", replay)
					}
					if rs.ct != "text" {
						r.Violate("C16", "C16/content-type", "text payload served as "+rs.ct, replay)
					}
					thrN := 1024
					if thr != "-" {
						thrN = atoi(thr)
					}
					may := compressFlag && len(msg)+1 >= thrN
					if ce[0] != "-" {
						if !may {
							r.Violate("C16", "C16/compressed-without-cause", fmt.Sprintf("compressed although flag=%v size=%d threshold=%d", compressFlag, len(msg)+1, thrN), replay)
						}
						if ae == "-" || !acceptNames(ae)[ce[0]] {
							r.Violate("C16", "C16/coding-not-named-by-accept-encoding/"+ce[0], fmt.Sprintf("Content-Encoding %s although the request's Accept-Encoding is %q", ce[0], ae), replay)
						}
					}
				}
			}
		}
	}
	// payloads that do not shrink under the coding, and revision-3 text payloads that do: whatever the server decides about
	// the coding, the poll is answered, the body decodes to the batch and a text payload is served as text
	for _, proto := range []int{4, 3} {
		for _, ae := range []string{"gzip", "deflate", "br", "zstd", "GZIP", "Deflate", "BR, identity", "zStd;q=1"} {
			for _, kind := range []string{"incompressible", "compressible"} {
				msg := []byte("m0123456789abcdefghi")
				if kind == "compressible" {
					msg = append([]byte("m"), bytes_repeat('q', 1500)...)
				}
				lines := []string{"ses cfg 25000 20000 1000 100000 default 1 1 - 0 16", fmt.Sprintf("ses hs polling %d 0 -", proto),
					fmt.Sprintf("ses send s0 t %s 1 0 -", hx(msg)), "ses poll s0 " + hx([]byte(ae))}
				outs := sesRun(t, lines)
				r.scenarios++
				for i, l := range lines {
					r.Op(l, outs[i])
				}
				r.Cover(fmt.Sprintf("resp/%s/proto=%d/ae=%s", kind, proto, ae))
				o := parseObs(outs[3])
				if len(o.resps) != 1 {
					for _, pr := range []string{"C11", "C16", "C01"} {
						r.Violate(pr, pr+"/poll-with-data-waiting-not-answered/"+kind, fmt.Sprintf("a revision-%d poll with Accept-Encoding %q found a batch waiting and got %d responses", proto, ae, len(o.resps)), lines)
					}
					continue
				}
				rs := o.resps[0]
				want := hx(append([]byte("4"), msg...))
				if proto == 3 {
					want = hx(append([]byte(fmt.Sprintf("%d:4", len(msg)+1)), msg...))
				}
				if strings.Contains(rs.ce, "!") || rs.body != want {
					for _, pr := range []string{"C16", "C01"} {
						r.Violate(pr, pr+"/payload/"+kind, fmt.Sprintf("revision %d, Accept-Encoding %q: the (decoded) body is not the payload of the batch (Content-Encoding %s)", proto, ae, rs.ce), lines)
					}
				}
				if rs.ct != "text" {
					for _, pr := range []string{"C16", "C01"} {
						r.Violate(pr, pr+"/content-type/"+kind, fmt.Sprintf("revision %d, Accept-Encoding %q, Content-Encoding %s: a text payload was served as %s (a revision-3 client picks its decoder by it)", proto, ae, rs.ce, rs.ct), lines)
					}
				}
			}
		}
	}
	// a CORS policy that names the request's origin out of a list, on responses that are and are not content-encoded:
	// the answer depends on the request, so every such response carries Vary: Origin, whatever else it varies on
	for _, thr := range []string{"16", "100000"} {
		for _, ae := range []string{"gzip", "br", "-"} {
			msg := append([]byte("m"), bytes_repeat('c', 400)...)
			poll := "ses poll s0"
			if ae != "-" {
				poll += " " + hx([]byte(ae))
			}
			lines := []string{fmt.Sprintf("ses cfg 25000 20000 1000 100000 default 1 0 - 0 %s - cors:%s", thr, hx([]byte("https://a.example"))),
				"ses hs polling 4 0 -", fmt.Sprintf("ses send s0 t %s 1 0 -", hx(msg)), poll, "ses post s0 t 1 346869", fmt.Sprintf("ses send s0 t %s 1 0 -", hx(msg)), poll}
			outs := sesRun(t, lines)
			r.scenarios++
			r.Cover(fmt.Sprintf("resp/cors/thr=%s/ae=%s", thr, ae))
			for i, l := range lines {
				r.Op(l, outs[i])
				for _, tok := range strings.Fields(outs[i]) {
					if strings.HasPrefix(tok, "CORS!:") {
						p := strings.Split(tok, ":")
						r.Violate("C17", "C17/cors/session-response/vary-or-allow-origin", fmt.Sprintf("response %s of a session under a policy that names the request's origin: Access-Control-Allow-Origin=%q Vary=%q (want the origin, and Vary to name Origin)",
							p[1], unhx(strings.TrimPrefix(p[2], "acao=")), unhx(strings.TrimPrefix(p[3], "vary="))), lines[:i+1])
					}
				}
			}
		}
	}
	// JSONP: wrapper shape, digits of j, script-safe literal, round trip of newlines
	js := []string{"0", "12", "7);alert(1);//", "1e3", "-5", "４２", "", "abc", "9]=1;x[0", "3", "5", "6"}
	payloads := []string{"plain", "quote\"s", "new\nline", "back\\nslash", "</script><script>alert(1)</script>", "amp&<>", "u2028:  u2029: ", "\x00\x1f", "é😀", "backslash\\\nnewline", "ring\x07ring\x7f", "tag\U000E0001end\U000F0000"}
	for ji, j := range js {
		pl := payloads[ji%len(payloads)]
		lines := []string{"ses cfg 25000 20000 1000 100000 default 1 0 - 0 -", "ses hs polling 4 0 " + strOr(hx([]byte(j)), "e"),
			"ses send s0 t " + hx([]byte(pl)) + " 0 0 -", "ses poll s0",
			"ses postj s0 " + hx([]byte("4"+pl)), "ses obs"}
		if j == "" {
			lines[1] = "ses hs polling 4 0 " + hx([]byte(" "))
			j = " "
		}
		outs := sesRun(t, lines)
		r.scenarios++
		for i, l := range lines {
			r.Op(l, outs[i])
		}
		r.Cover(fmt.Sprintf("jsonp/j=%d/payload=%d", ji, ji%len(payloads)))
		digits := ""
		for _, c := range j {
			if c >= '0' && c <= '9' {
				digits += string(c)
			}
		}
		for _, idx := range []int{1, 3} {
			for _, rs := range parseObs(outs[idx]).resps {
				body := string(unhx(rs.body))
				head := "___eio[" + digits + "]("
				if !strings.HasPrefix(body, head) || !strings.HasSuffix(body, ");") {
					r.Violate("C16", "C16/jsonp/shape", fmt.Sprintf("JSONP response %q is not ___eio[%s](<literal>);", body, digits), lines[:idx+1])
					continue
				}
				lit := body[len(head) : len(body)-2]
				var decoded string
				if err := jsonUnmarshal([]byte(lit), &decoded); err != nil {
					r.Violate("C16", "C16/jsonp/literal", "the argument is not one JSON string literal: "+lit, lines[:idx+1])
					if idx == 3 {
						r.Violate("C01", "C01/jsonp/literal", fmt.Sprintf("a JSONP client cannot read the literal carrying the message %q: %s", pl, lit), lines[:idx+1])
					}
					continue
				}
				for _, bad := range []string{"<", ">", "&", " ", " ", "\n"} {
					if strings.Contains(lit, bad) {
						r.Violate("C16", "C16/jsonp/unsafe-character", fmt.Sprintf("the literal contains %q raw", bad), lines[:idx+1])
					}
				}
				if idx == 3 && decoded != "4"+pl {
					r.Violate("C16", "C16/jsonp/payload", fmt.Sprintf("JSONP literal decodes to %q, want %q", decoded, "4"+pl), lines[:idx+1])
					r.Violate("C01", "C01/jsonp/payload", fmt.Sprintf("a JSONP client received %q for the message %q", decoded, pl), lines[:idx+1])
				}
			}
		}
		// C02: the JSONP form body is un-escaped back to the submitted payload
		got := ""
		for _, e := range parseObs(outs[4]).events {
			if e.name == "message" {
				got = string(unhx(e.args[1]))
			}
		}
		if got != pl {
			sig := "C02/jsonp-unescape"
			if strings.Contains(pl, "\\\n") {
				sig += "/backslash-before-newline"
			}
			r.Violate("C02", sig, fmt.Sprintf("message submitted through JSONP arrived as %q, want %q", got, pl), lines[:5])
		}
	}
}
