package harness

import (
	"encoding/base64"
	"encoding/binary"
	"fmt"
	"math"
	"sort"
	"strings"
	"sync"
	"testing"
	"testing/synctest"
	"time"

	"github.com/zishang520/engine.io/v2/types"
	"github.com/zishang520/engine.io/v2/utils"
)

func init() {
	families["utl"] = famUtl
	families["yeast"] = famYeast
	interpreters["utl"] = func() interface{ Exec(string) string } { return &utlInterp{} }
	scenarioRunners["yeast"] = yeastRun
}

func csvInts(s string) []int { return unints(s) }

// ---- interpreter ---------------------------------------------------------

type emWorld struct {
	em    types.EventEmitter
	calls []int
	react map[int][]string // fn id -> ops to perform when called
	it    *utlInterp
}

type utlInterp struct {
	sl       *types.Slice[int]
	set      *types.Set[int]
	mp       *types.Map[int, int]
	mapQuiet bool
	mapRaw   bool // no call of the harness after the operation: the state is shown by VerifDump
	em       *emWorld
	yst      *utils.Yeast
	// the last batch a Slice method handed out, kept the way a caller keeps it (socket.flush keeps the
	// result of AllAndClear while the next Send pushes): it must not change under later operations,
	// and writing to it must not change the Slice
	held    []int
	heldWas string
	heldAge int
}

func guard(f func() string) (out string) {
	defer func() {
		if p := recover(); p != nil {
			out = "panic"
		}
	}()
	return f()
}

func (it *utlInterp) Exec(line string) string {
	t := strings.Fields(line)
	if len(t) < 3 || t[0] != "utl" {
		return "bad-op"
	}
	return guard(func() string {
		switch t[1] {
		case "slice":
			return it.slice(t[2:])
		case "set":
			return it.setOp(t[2:])
		case "mapq":
			it.mapQuiet = true
			out := it.mapOp(t[2:])
			it.mapQuiet = false
			return out
		case "mapr":
			it.mapRaw = true
			out := it.mapOp(t[2:])
			it.mapRaw = false
			return out
		case "map":
			return it.mapOp(t[2:])
		case "em":
			return it.emOp(t[2:])
		case "yeast":
			return it.yeastOp(t[2:])
		case "b64id":
			// utl b64id <10 random bytes hex> <seq>: the implementation produced this id
			return "bad-op"
		}
		return "bad-op"
	})
}

func errStr(err error) string {
	switch err {
	case nil:
		return "ok"
	case types.ErrSliceEmpty:
		return "err:empty"
	case types.ErrIndexOutOfBounds:
		return "err:index"
	case types.ErrInvalidSliceRange:
		return "err:range"
	}
	return "err:other"
}

func (it *utlInterp) slice(t []string) string {
	out := it.slice0(t)
	if it.held != nil && t[0] != "allandclear" && t[0] != "filter" && t[0] != "slice" {
		it.heldAge++
		if ints(it.held) != it.heldWas {
			out += " ALIAS:returned-batch-changed:" + it.heldWas + "->" + ints(it.held)
			it.held = nil
		} else if it.heldAge == 2 {
			// the caller writes into its batch: the Slice must not see it (the next operation prints the contents)
			for i := range it.held {
				it.held[i] = 977
			}
			it.heldWas = ints(it.held)
		}
	}
	return out
}

func (it *utlInterp) hold(v []int) {
	it.held, it.heldWas, it.heldAge = v, ints(v), 0
}

func (it *utlInterp) slice0(t []string) string {
	st := func(res string) string { return res + " ; " + ints(it.sl.All()) }
	switch t[0] {
	case "new":
		it.sl = types.NewSlice(csvInts(t[1])...)
		return st("ok")
	case "push":
		return st(fmt.Sprint(it.sl.Push(csvInts(t[1])...)))
	case "unshift":
		return st(fmt.Sprint(it.sl.Unshift(csvInts(t[1])...)))
	case "pop":
		v, err := it.sl.Pop()
		if err != nil {
			return st(errStr(err))
		}
		return st(fmt.Sprint(v))
	case "shift":
		v, err := it.sl.Shift()
		if err != nil {
			return st(errStr(err))
		}
		return st(fmt.Sprint(v))
	case "get":
		v, err := it.sl.Get(atoi(t[1]))
		if err != nil {
			return st(errStr(err))
		}
		return st(fmt.Sprint(v))
	case "set":
		return st(errStr(it.sl.Set(atoi(t[1]), atoi(t[2]))))
	case "slice":
		v, err := it.sl.Slice(atoi(t[1]), atoi(t[2]))
		if err != nil {
			return st(errStr(err))
		}
		it.hold(v)
		return st(ints(v))
	case "splice":
		v, err := it.sl.Splice(atoi(t[1]), atoi(t[2]), csvInts(t[3])...)
		if err != nil {
			return st(errStr(err))
		}
		return st(ints(v))
	case "rsplice": // first element equal to v (optionally from the end) triggers splice(start, del, insert)
		v, start, del, ins, rev := atoi(t[1]), atoi(t[2]), atoi(t[3]), csvInts(t[4]), t[5] == "1"
		rm, err := it.sl.RangeAndSplice(func(el int, i int) (bool, int, int, []int) { return el == v, start, del, ins }, rev)
		if err != nil {
			return st(errStr(err))
		}
		return st(ints(rm))
	case "remove":
		v := atoi(t[1])
		it.sl.Remove(func(el int) bool { return el == v })
		return st("ok")
	case "removeall":
		v := atoi(t[1])
		it.sl.RemoveAll(func(el int) bool { return el >= v })
		return st("ok")
	case "filter":
		v := atoi(t[1])
		fl := it.sl.Filter(func(el int) bool { return el >= v })
		it.hold(fl)
		return st(ints(fl))
	case "findindex":
		v := atoi(t[1])
		return st(fmt.Sprint(it.sl.FindIndex(func(el int) bool { return el == v })))
	case "allandclear":
		b := it.sl.AllAndClear()
		it.hold(b)
		return st(ints(b))
	case "clear":
		it.sl.Clear()
		return st("ok")
	case "len":
		return st(fmt.Sprint(it.sl.Len()))
	}
	return "bad-op"
}

func (it *utlInterp) setOp(t []string) string {
	st := func(res string) string {
		k := it.set.Keys()
		sort.Ints(k)
		return res + " ; " + ints(k) + " len=" + fmt.Sprint(it.set.Len())
	}
	switch t[0] {
	case "new":
		it.set = types.NewSet(csvInts(t[1])...)
		return st("ok")
	case "add":
		return st(b01(it.set.Add(csvInts(t[1])...)))
	case "delete":
		return st(b01(it.set.Delete(csvInts(t[1])...)))
	case "has":
		return st(b01(it.set.Has(atoi(t[1]))))
	case "clear":
		return st(b01(it.set.Clear()))
	}
	return "bad-op"
}

func (it *utlInterp) mapOp(t []string) string {
	st := func(res string) string {
		if it.mapRaw {
			return res + " ; " + mapDump(it.mp)
		}
		n := it.mp.Len() // before Keys(): listing the keys promotes the dirty map, which would hide a stale count
		if it.mapQuiet {
			return res + " ; len=" + fmt.Sprint(n) // the contents are not listed: listing walks the map and reorganises it
		}
		var kv []string
		keys := it.mp.Keys()
		sort.Ints(keys)
		for _, k := range keys {
			v, _ := it.mp.Load(k)
			kv = append(kv, fmt.Sprintf("%d=%d", k, v))
		}
		s := strings.Join(kv, ",")
		if s == "" {
			s = "-"
		}
		return res + " ; " + s + " len=" + fmt.Sprint(n)
	}
	vb := func(v int, ok bool) string {
		if !ok {
			return "none"
		}
		return fmt.Sprint(v)
	}
	switch t[0] {
	case "new":
		it.mp = &types.Map[int, int]{}
		return st("ok")
	case "store":
		it.mp.Store(atoi(t[1]), atoi(t[2]))
		return st("ok")
	case "load":
		return st(vb(it.mp.Load(atoi(t[1]))))
	case "loadorstore":
		v, loaded := it.mp.LoadOrStore(atoi(t[1]), atoi(t[2]))
		return st(fmt.Sprintf("%d,%s", v, b01(loaded)))
	case "loadanddelete":
		return st(vb(it.mp.LoadAndDelete(atoi(t[1]))))
	case "delete":
		it.mp.Delete(atoi(t[1]))
		return st("ok")
	case "swap":
		return st(vb(it.mp.Swap(atoi(t[1]), atoi(t[2]))))
	case "cas":
		return st(b01(it.mp.CompareAndSwap(atoi(t[1]), atoi(t[2]), atoi(t[3]))))
	case "cad":
		return st(b01(it.mp.CompareAndDelete(atoi(t[1]), atoi(t[2]))))
	case "clear":
		it.mp.Clear()
		return st("ok")
	case "len":
		return st(fmt.Sprint(it.mp.Len()))
	case "range": // visit until the n-th key (sorted output of what was visited)
		n := atoi(t[1])
		var seen []int
		it.mp.Range(func(k, v int) bool {
			seen = append(seen, k)
			return len(seen) < n
		})
		return st(fmt.Sprintf("visited=%d", len(seen)))
	}
	return "bad-op"
}

// mapDump renders the internal state of the Map (types/map_verif.go, tag verif) in the driver's format.
func mapDump(m *types.Map[int, int]) string {
	entries, amended, dirtyNil, misses := m.VerifDump()
	sort.Slice(entries, func(i, j int) bool { return entries[i].Key < entries[j].Key })
	stateStr := func(st, v int) string {
		switch st {
		case 1:
			return "n"
		case 2:
			return "x"
		}
		return fmt.Sprintf("v%d", v)
	}
	var rd, dd []string
	for _, e := range entries {
		if e.InRead {
			rd = append(rd, fmt.Sprintf("%d=%s", e.Key, stateStr(e.ReadState, e.ReadValue)))
		}
		if e.InDirty {
			mark := ""
			if e.InRead && !e.Same {
				mark = "!"
			}
			dd = append(dd, fmt.Sprintf("%d=%s%s", e.Key, stateStr(e.DirtyState, e.DirtyValue), mark))
		}
	}
	join := func(x []string) string {
		if len(x) == 0 {
			return "-"
		}
		return strings.Join(x, ",")
	}
	d := join(dd)
	if dirtyNil {
		d = "nil"
	}
	return fmt.Sprintf("R:%s A:%s D:%s M:%d", join(rd), b01(amended), d, misses)
}

// eight listener bodies with distinct code pointers
func (w *emWorld) listener(id int) types.Listener {
	switch id {
	case 0:
		return func(...any) { w.call(0) }
	case 1:
		return func(...any) { w.call(1) }
	case 2:
		return func(...any) { w.call(2) }
	case 3:
		return func(...any) { w.call(3) }
	case 4:
		return func(...any) { w.call(4) }
	case 5:
		return func(...any) { w.call(5) }
	case 6:
		return func(...any) { w.call(6) }
	}
	return func(...any) { w.call(7) }
}

func (w *emWorld) call(id int) {
	w.calls = append(w.calls, id)
	for _, op := range w.react[id] {
		w.it.emOp(strings.Fields(op)[1:])
	}
}

func (w *emWorld) listeners(csv string) []types.Listener {
	var ls []types.Listener
	for _, f := range strings.Split(csv, ",") {
		if f == "n" {
			ls = append(ls, nil)
		} else {
			ls = append(ls, w.listener(atoi(f)))
		}
	}
	return ls
}

func (it *utlInterp) emOp(t []string) string {
	w := it.em
	switch t[0] {
	case "new":
		it.em = &emWorld{em: types.NewEventEmitter(), react: map[int][]string{}, it: it}
		return "ok"
	case "on":
		w.em.On(types.EventName(t[1]), w.listeners(t[2])...)
		return fmt.Sprintf("count=%d", w.em.ListenerCount(types.EventName(t[1])))
	case "once":
		w.em.Once(types.EventName(t[1]), w.listeners(t[2])...)
		return fmt.Sprintf("count=%d", w.em.ListenerCount(types.EventName(t[1])))
	case "react": // when listener id runs it performs: em <op...> (ops joined by '_' for spaces)
		w.react[atoi(t[1])] = append(w.react[atoi(t[1])], strings.ReplaceAll(t[2], "_", " "))
		return "ok"
	case "emit":
		w.calls = nil
		w.em.Emit(types.EventName(t[1]))
		return fmt.Sprintf("calls=%s count=%d", ints(w.calls), w.em.ListenerCount(types.EventName(t[1])))
	case "remove":
		var l types.Listener
		if t[2] != "n" {
			l = w.listener(atoi(t[2]))
		}
		ok := w.em.RemoveListener(types.EventName(t[1]), l)
		return fmt.Sprintf("%s count=%d", b01(ok), w.em.ListenerCount(types.EventName(t[1])))
	case "removeall":
		ok := w.em.RemoveAllListeners(types.EventName(t[1]))
		return fmt.Sprintf("%s count=%d", b01(ok), w.em.ListenerCount(types.EventName(t[1])))
	case "listeners":
		return fmt.Sprintf("n=%d", len(w.em.Listeners(types.EventName(t[1]))))
	}
	return "bad-op"
}

func (it *utlInterp) yeastOp(t []string) string {
	if it.yst == nil {
		it.yst = utils.NewYeast()
	}
	switch t[0] {
	case "enc":
		n := atoi(t[1])
		return hx([]byte(it.yst.Encode(int64(n))))
	case "dec":
		return fmt.Sprint(it.yst.Decode(string(unhx(t[1]))))
	}
	return "bad-op"
}

// ---- generators + monitors ---------------------------------------------

func randCsv(r *Rec, n, max int) []int {
	xs := make([]int, n)
	for i := range xs {
		xs[i] = r.rng.IntN(max)
	}
	return xs
}

// refSlice is ordinary sequence semantics, written from the method docs.
type refSlice struct{ a []int }

func famUtl(t *testing.T, r *Rec) {
	nSeq := 60
	if r.thorough() {
		nSeq = 600
	}
	// --- Slice: model-based op sequences against plain sequence semantics ---
	for s := 0; s < nSeq; s++ {
		it := &utlInterp{}
		var replay []string
		do := func(op string) string {
			out := it.Exec(op)
			r.Op(op, out)
			replay = append(replay, op)
			return out
		}
		ref := randCsv(r, r.rng.IntN(6), 9)
		do("utl slice new " + ints(ref))
		r.scenarios++
		for k := 0; k < 12; k++ {
			idx := func() int { return r.rng.IntN(len(ref)+4) - 2 }
			var op, want string
			switch c := r.rng.IntN(17); c {
			case 0:
				xs := randCsv(r, r.rng.IntN(3), 9)
				op = "utl slice push " + ints(xs)
				ref = append(ref, xs...)
				want = fmt.Sprint(len(ref))
			case 1:
				xs := randCsv(r, r.rng.IntN(3), 9)
				op = "utl slice unshift " + ints(xs)
				ref = append(append([]int{}, xs...), ref...)
				want = fmt.Sprint(len(ref))
			case 2:
				op = "utl slice pop"
				if len(ref) == 0 {
					want = "err:empty"
				} else {
					want = fmt.Sprint(ref[len(ref)-1])
					ref = ref[:len(ref)-1]
				}
			case 3:
				op = "utl slice shift"
				if len(ref) == 0 {
					want = "err:empty"
				} else {
					want = fmt.Sprint(ref[0])
					ref = ref[1:]
				}
			case 4:
				i := idx()
				op = fmt.Sprintf("utl slice get %d", i)
				if i < 0 || i >= len(ref) {
					want = "err:index"
				} else {
					want = fmt.Sprint(ref[i])
				}
			case 5:
				i, v := idx(), r.rng.IntN(9)
				op = fmt.Sprintf("utl slice set %d %d", i, v)
				if i < 0 || i >= len(ref) {
					want = "err:index"
				} else {
					ref = append([]int{}, ref...)
					ref[i] = v
					want = "ok"
				}
			case 6:
				a, b := idx(), idx()
				op = fmt.Sprintf("utl slice slice %d %d", a, b)
				if a < 0 || b > len(ref) || a > b {
					want = "err:range"
				} else {
					want = ints(ref[a:b])
				}
			case 7, 8:
				st, del, ins := idx(), r.rng.IntN(6)-2, randCsv(r, r.rng.IntN(3), 9)
				if r.rng.IntN(5) == 0 { // "everything to the end", spelled as the largest counts there are
					del = []int{math.MaxInt, math.MaxInt, math.MaxInt - 1, 1 << 62}[r.rng.IntN(4)]
				}
				op = fmt.Sprintf("utl slice splice %d %d %s", st, del, ints(ins))
				switch {
				case st < 0 || st > len(ref):
					want = "err:index"
				case del < 0:
					want = "err:*" // an error, never a panic
				default:
					d := min(del, len(ref)-st)
					want = ints(ref[st : st+d])
					nr := append([]int{}, ref[:st]...)
					nr = append(nr, ins...)
					ref = append(nr, ref[st+d:]...)
				}
			case 9:
				v := r.rng.IntN(9)
				op = fmt.Sprintf("utl slice remove %d", v)
				for i, x := range ref {
					if x == v {
						ref = append(append([]int{}, ref[:i]...), ref[i+1:]...)
						break
					}
				}
				want = "ok"
			case 10:
				v := r.rng.IntN(9)
				op = fmt.Sprintf("utl slice removeall %d", v)
				var nr []int
				for _, x := range ref {
					if x < v {
						nr = append(nr, x)
					}
				}
				ref = nr
				want = "ok"
			case 11:
				v := r.rng.IntN(9)
				op = fmt.Sprintf("utl slice filter %d", v)
				var nr []int
				for _, x := range ref {
					if x >= v {
						nr = append(nr, x)
					}
				}
				want = ints(nr)
			case 12:
				v := r.rng.IntN(9)
				op = fmt.Sprintf("utl slice findindex %d", v)
				want = "-1"
				for i, x := range ref {
					if x == v {
						want = fmt.Sprint(i)
						break
					}
				}
			case 13:
				op = "utl slice allandclear"
				want = ints(ref)
				ref = nil
			case 14:
				op = "utl slice len"
				want = fmt.Sprint(len(ref))
			default:
				v, st, del, ins, rev := r.rng.IntN(9), idx(), r.rng.IntN(5)-1, randCsv(r, r.rng.IntN(3), 9), r.rng.IntN(2)
				if r.rng.IntN(5) == 0 {
					del = []int{math.MaxInt, math.MaxInt, math.MaxInt - 1}[r.rng.IntN(3)]
				}
				op = fmt.Sprintf("utl slice rsplice %d %d %d %s %d", v, st, del, ints(ins), rev)
				hit := false
				for _, x := range ref {
					hit = hit || x == v
				}
				switch {
				case !hit:
					want = "-"
				case st < 0 || st > len(ref):
					want = "err:index"
				case del < 0:
					want = "err:*"
				default:
					d := min(del, len(ref)-st)
					want = ints(ref[st : st+d])
					nr := append([]int{}, ref[:st]...)
					nr = append(nr, ins...)
					ref = append(nr, ref[st+d:]...)
				}
			}
			out := do(op)
			f := strings.SplitN(out, " ; ", 2)
			r.Cover("slice/" + strings.Fields(op)[2] + "/" + strings.SplitN(want, ":", 2)[0][:min(3, len(want))])
			okRes := f[0] == want || (want == "err:*" && strings.HasPrefix(f[0], "err:"))
			if strings.Contains(out, " ALIAS:") {
				r.Violate("C20", "C20/slice/shares-storage/returned-batch", "a batch handed out by an earlier Slice method changed under "+op+": "+out[strings.Index(out, " ALIAS:")+1:], replay)
				break
			}
			if out == "panic" {
				r.Violate("C20", "C20/slice/"+strings.Fields(op)[2]+"/panic", "invalid index or count panics instead of returning an error: "+op, replay)
				break
			}
			if !okRes || len(f) < 2 || f[1] != ints(ref) {
				r.Violate("C20", "C20/slice/"+strings.Fields(op)[2]+"/not-sequence-semantics", fmt.Sprintf("%s => %s, want %s ; %s", op, out, want, ints(ref)), replay)
				break
			}
		}
	}
	sliceAliasing(r)

	// --- Set ---
	for s := 0; s < nSeq/2; s++ {
		it := &utlInterp{}
		var replay []string
		ref := map[int]bool{}
		init := randCsv(r, r.rng.IntN(4), 6)
		for _, x := range init {
			ref[x] = true
		}
		state := func() string {
			var k []int
			for x := range ref {
				k = append(k, x)
			}
			sort.Ints(k)
			return ints(k) + " len=" + fmt.Sprint(len(k))
		}
		op := "utl set new " + ints(init)
		r.Op(op, it.Exec(op))
		replay = append(replay, op)
		r.scenarios++
		for k := 0; k < 10; k++ {
			var want string
			xs := randCsv(r, r.rng.IntN(3), 6)
			switch r.rng.IntN(4) {
			case 0:
				op = "utl set add " + ints(xs)
				for _, x := range xs {
					ref[x] = true
				}
				want = b01(len(xs) > 0)
			case 1:
				op = "utl set delete " + ints(xs)
				for _, x := range xs {
					delete(ref, x)
				}
				want = b01(len(xs) > 0)
			case 2:
				v := r.rng.IntN(6)
				op = fmt.Sprintf("utl set has %d", v)
				want = b01(ref[v])
			default:
				op = "utl set clear"
				ref = map[int]bool{}
				want = "1"
			}
			out := it.Exec(op)
			r.Op(op, out)
			replay = append(replay, op)
			r.Cover("set/" + strings.Fields(op)[2])
			if out != want+" ; "+state() {
				r.Violate("C20", "C20/set/"+strings.Fields(op)[2], fmt.Sprintf("%s => %s, want %s ; %s", op, out, want, state()), replay)
				break
			}
		}
	}

	// --- Map (sequential refinement of an ordinary map) ---
	for s := 0; s < nSeq; s++ {
		it := &utlInterp{}
		var replay []string
		ref := map[int]int{}
		quiet := s < 3 || s%2 == 1 // the contents are listed in every other sequence only: listing reorganises the map
		state := func() string {
			var ks []int
			for k := range ref {
				ks = append(ks, k)
			}
			sort.Ints(ks)
			var kv []string
			for _, k := range ks {
				kv = append(kv, fmt.Sprintf("%d=%d", k, ref[k]))
			}
			x := strings.Join(kv, ",")
			if x == "" {
				x = "-"
			}
			if quiet {
				return "len=" + fmt.Sprint(len(ref))
			}
			return x + " len=" + fmt.Sprint(len(ref))
		}
		op := "utl map new"
		r.Op(op, it.Exec(op))
		replay = append(replay, op)
		r.scenarios++
		// the first sequences open with the histories in which the read-only part and the dirty part of the
		// map disagree about a key (a promotion by misses, then a delete through the read path / CompareAndDelete)
		scripted := [][][3]int{
			{{0, 1, 1}, {2, 1, 0}, {0, 2, 2}, {5, 1, 0}, {2, 2, 0}},
			{{0, 1, 1}, {0, 2, 2}, {8, 1, 1}, {2, 2, 0}},
			{{0, 1, 1}, {2, 1, 0}, {0, 2, 2}, {4, 1, 0}, {0, 3, 3}, {5, 2, 0}},
		}
		for k := 0; k < 25; k++ {
			key, v, v2 := r.rng.IntN(5), r.rng.IntN(4), r.rng.IntN(4)
			choice := r.rng.IntN(11)
			if s < len(scripted) && k < len(scripted[s]) {
				choice, key, v = scripted[s][k][0], scripted[s][k][1], scripted[s][k][2]
			}
			old, had := ref[key]
			vb := func() string {
				if !had {
					return "none"
				}
				return fmt.Sprint(old)
			}
			var want string
			switch choice {
			case 0, 1:
				op = fmt.Sprintf("utl map store %d %d", key, v)
				ref[key] = v
				want = "ok"
			case 2:
				op = fmt.Sprintf("utl map load %d", key)
				want = vb()
			case 3:
				op = fmt.Sprintf("utl map loadorstore %d %d", key, v)
				if had {
					want = fmt.Sprintf("%d,1", old)
				} else {
					ref[key] = v
					want = fmt.Sprintf("%d,0", v)
				}
			case 4:
				op = fmt.Sprintf("utl map loadanddelete %d", key)
				want = vb()
				delete(ref, key)
			case 5:
				op = fmt.Sprintf("utl map delete %d", key)
				delete(ref, key)
				want = "ok"
			case 6:
				op = fmt.Sprintf("utl map swap %d %d", key, v)
				want = vb()
				ref[key] = v
			case 7:
				op = fmt.Sprintf("utl map cas %d %d %d", key, v, v2)
				if had && old == v {
					ref[key] = v2
					want = "1"
				} else {
					want = "0"
				}
			case 8:
				op = fmt.Sprintf("utl map cad %d %d", key, v)
				if had && old == v {
					delete(ref, key)
					want = "1"
				} else {
					want = "0"
				}
			case 9:
				n := 1 + r.rng.IntN(6)
				op = fmt.Sprintf("utl map range %d", n)
				want = fmt.Sprintf("visited=%d", min(n, len(ref)))
			default:
				if r.rng.IntN(4) == 0 {
					op = "utl map clear"
					ref = map[int]int{}
					want = "ok"
				} else {
					op = fmt.Sprintf("utl map load %d", key)
					want = vb()
				}
			}
			if quiet {
				op = strings.Replace(op, "utl map ", "utl mapq ", 1)
			}
			out := it.Exec(op)
			r.Op(op, out)
			replay = append(replay, op)
			r.Cover("map/" + strings.Fields(op)[2] + "/had=" + b01(had) + "/quiet=" + b01(quiet))
			if out != want+" ; "+state() {
				r.Violate("C20", "C20/map/"+strings.Fields(op)[2], fmt.Sprintf("%s => %s, want %s ; %s", op, out, want, state()), replay)
				r.Violate("C04", "C04/client-table-map/"+strings.Fields(op)[2], fmt.Sprintf("the Map that holds the client table: %s => %s, want %s ; %s", op, out, want, state()), replay)
				break
			}
		}
	}
	// --- Map, raw: no call of the harness between the operations, so the read map, the dirty map, the
	// amended flag, the miss counter and expunged entries live across operations; after every operation the
	// internal state (VerifDump) is compared with the model's, and the result with an ordinary map (monitor)
	for s := 0; s < 2*nSeq; s++ {
		it := &utlInterp{}
		var replay []string
		ref := map[int]int{}
		op := "utl mapr new"
		r.Op(op, it.Exec(op))
		replay = append(replay, op)
		r.scenarios++
		nKeys := 2 + r.rng.IntN(5)
		steps := 20 + r.rng.IntN(30)
		for k := 0; k < steps; k++ {
			key, v, v2 := r.rng.IntN(nKeys), r.rng.IntN(3), r.rng.IntN(3)
			old, had := ref[key]
			vb := func() string {
				if !had {
					return "none"
				}
				return fmt.Sprint(old)
			}
			var want string
			switch c := r.rng.IntN(20); {
			case c < 4:
				op = fmt.Sprintf("utl mapr store %d %d", key, v)
				ref[key] = v
				want = "ok"
			case c < 8:
				op = fmt.Sprintf("utl mapr load %d", key)
				want = vb()
			case c < 10:
				op = fmt.Sprintf("utl mapr loadorstore %d %d", key, v)
				if had {
					want = fmt.Sprintf("%d,1", old)
				} else {
					ref[key] = v
					want = fmt.Sprintf("%d,0", v)
				}
			case c < 12:
				op = fmt.Sprintf("utl mapr loadanddelete %d", key)
				want = vb()
				delete(ref, key)
			case c < 14:
				op = fmt.Sprintf("utl mapr delete %d", key)
				delete(ref, key)
				want = "ok"
			case c < 15:
				op = fmt.Sprintf("utl mapr swap %d %d", key, v)
				want = vb()
				ref[key] = v
			case c < 16:
				op = fmt.Sprintf("utl mapr cas %d %d %d", key, v, v2)
				want = "0"
				if had && old == v {
					ref[key] = v2
					want = "1"
				}
			case c < 17:
				op = fmt.Sprintf("utl mapr cad %d %d", key, v)
				want = "0"
				if had && old == v {
					delete(ref, key)
					want = "1"
				}
			case c < 18:
				op = "utl mapr len"
				want = fmt.Sprint(len(ref))
			case c < 19:
				n := 1 + r.rng.IntN(4)
				op = fmt.Sprintf("utl mapr range %d", n)
				want = fmt.Sprintf("visited=%d", min(n, len(ref)))
			default:
				if r.rng.IntN(3) == 0 {
					op = "utl mapr clear"
					ref = map[int]int{}
					want = "ok"
				} else {
					op = fmt.Sprintf("utl mapr load %d", nKeys+1) // a key never stored: a pure miss
					want = "none"
				}
			}
			out := it.Exec(op)
			r.Op(op, out)
			replay = append(replay, op)
			res, dump, _ := strings.Cut(out, " ; ")
			shape := "R"
			if strings.Contains(dump, " A:1 ") {
				shape += "/amended"
			}
			if strings.Contains(dump, "=x") {
				shape += "/expunged"
			}
			if strings.Contains(dump, "D:nil") {
				shape += "/dirty-nil"
			}
			r.Cover("mapr/" + strings.Fields(op)[2] + "/" + shape)
			if res != want {
				r.Violate("C20", "C20/mapr/"+strings.Fields(op)[2], fmt.Sprintf("%s => %s, want %s (an ordinary map holds %v)", op, res, want, ref), replay)
				// the server's client table is this Map: a key that is lost, kept or miscounted is a session that is
				// unreachable, still reachable after its close, or a count that drifts
				r.Violate("C04", "C04/client-table-map/"+strings.Fields(op)[2], fmt.Sprintf("the Map that holds the client table: %s => %s, want %s (an ordinary map holds %v)", op, res, want, ref), replay)
				break
			}
		}
	}
	mapReachable(r)
	emitterFamily(r, nSeq)
	idsFamily(r)
}

// mapRefStep: what an ordinary map answers to one call of the raw Map vocabulary (and how it changes).
func mapRefStep(ref map[int]int, f []string) string {
	vb := func(k int) string {
		if v, ok := ref[k]; ok {
			return fmt.Sprint(v)
		}
		return "none"
	}
	switch f[0] {
	case "store":
		ref[atoi(f[1])] = atoi(f[2])
		return "ok"
	case "load":
		return vb(atoi(f[1]))
	case "loadorstore":
		if v, ok := ref[atoi(f[1])]; ok {
			return fmt.Sprintf("%d,1", v)
		}
		ref[atoi(f[1])] = atoi(f[2])
		return f[2] + ",0"
	case "loadanddelete":
		out := vb(atoi(f[1]))
		delete(ref, atoi(f[1]))
		return out
	case "delete":
		delete(ref, atoi(f[1]))
		return "ok"
	case "swap":
		out := vb(atoi(f[1]))
		ref[atoi(f[1])] = atoi(f[2])
		return out
	case "cas":
		if v, ok := ref[atoi(f[1])]; ok && v == atoi(f[2]) {
			ref[atoi(f[1])] = atoi(f[3])
			return "1"
		}
		return "0"
	case "cad":
		if v, ok := ref[atoi(f[1])]; ok && v == atoi(f[2]) {
			delete(ref, atoi(f[1]))
			return "1"
		}
		return "0"
	case "len":
		return fmt.Sprint(len(ref))
	case "range":
		return fmt.Sprintf("visited=%d", min(atoi(f[1]), len(ref)))
	case "clear":
		for k := range ref {
			delete(ref, k)
		}
		return "ok"
	}
	return "?"
}

// mapReachable: every internal state the Map can reach over three keys and two values, breadth first (a state is the
// VerifDump of the implementation together with the contents an ordinary map would have); in each of them every call
// of the vocabulary must answer as the ordinary map does. The shortest path to a wrong answer is the replay. Monitor
// only (the paths are re-run from a fresh Map; a sample of them also goes through the correspondence above).
func mapReachable(r *Rec) {
	var vocab []string
	for k := 0; k < 3; k++ {
		vocab = append(vocab, fmt.Sprintf("store %d 1", k), fmt.Sprintf("load %d", k), fmt.Sprintf("delete %d", k),
			fmt.Sprintf("loadorstore %d 2", k), fmt.Sprintf("loadanddelete %d", k), fmt.Sprintf("cas %d 1 2", k), fmt.Sprintf("cad %d 2", k), fmt.Sprintf("swap %d 2", k))
	}
	vocab = append(vocab, "len", "range 2", "clear")
	limit := 4000
	if r.thorough() {
		limit = 40000
	}
	run := func(path []string) (it *utlInterp, ref map[int]int, last, want string) {
		it, ref = &utlInterp{}, map[int]int{}
		it.Exec("utl mapr new")
		for _, op := range path {
			last, _, _ = strings.Cut(it.Exec("utl mapr "+op), " ; ")
			want = mapRefStep(ref, strings.Fields(op))
		}
		return
	}
	key := func(it *utlInterp, ref map[int]int) string { return mapDump(it.mp) + fmt.Sprint(ref) }
	seen := map[string]bool{}
	frontier := [][]string{{}}
	it0, ref0, _, _ := run(nil)
	seen[key(it0, ref0)] = true
	states, calls := 1, 0
	for len(frontier) > 0 && states < limit {
		path := frontier[0]
		frontier = frontier[1:]
		for _, op := range vocab {
			next := append(append([]string{}, path...), op)
			it, ref, got, want := run(next)
			calls++
			if got != want {
				replay := []string{"utl mapr new"}
				for _, o := range next {
					replay = append(replay, "utl mapr "+o)
				}
				r.Violate("C20", "C20/map-reachable/"+strings.Fields(op)[0], fmt.Sprintf("after %v the Map answers %s to %q, an ordinary map %s", path, got, op, want), replay)
				r.Violate("C04", "C04/client-table-map/reachable/"+strings.Fields(op)[0], fmt.Sprintf("the Map that holds the client table: after %v it answers %s to %q, an ordinary map %s", path, got, op, want), replay)
				return
			}
			if k := key(it, ref); !seen[k] {
				seen[k] = true
				states++
				frontier = append(frontier, next)
			}
		}
	}
	r.scenarios++
	r.Cover(fmt.Sprintf("map-reachable/states>=%d", states/1000*1000))
	r.notes = append(r.notes, fmt.Sprintf("map-reachable: %d internal states of the Map over 3 keys explored breadth first (%d calls checked against an ordinary map), frontier left %d", states, calls, len(frontier)))
}

// sliceAliasing: storage must not be shared with caller-owned slices (monitor only).
func sliceAliasing(r *Rec) {
	for _, method := range []string{"push", "unshift", "splice", "rsplice"} {
		for _, spare := range []int{0, 4} {
			caller := make([]int, 2, 2+spare)
			caller[0], caller[1] = 101, 102
			full := caller[:cap(caller)]
			for i := 2; i < len(full); i++ {
				full[i] = -7 // sentinel in the spare capacity
			}
			s := types.NewSlice(1, 2, 3)
			switch method {
			case "push":
				s.Push(caller...)
			case "unshift":
				s.Unshift(caller...)
			case "splice":
				s.Splice(1, 1, caller...)
			case "rsplice":
				s.RangeAndSplice(func(el, i int) (bool, int, int, []int) { return el == 2, i, 1, caller })
			}
			before := s.All()
			r.Cover(fmt.Sprintf("slice-alias/%s/spare=%d", method, spare))
			replay := []string{fmt.Sprintf("Go: s := NewSlice(1,2,3); caller := make([]int,2,%d); s.%s(caller...); then mutate caller / inspect its spare capacity", 2+spare, method)}
			for i := 2; i < len(full); i++ {
				if full[i] != -7 {
					r.Violate("C20", "C20/slice/shares-storage/"+method+"/spare-capacity-written", "the caller's spare capacity was written by "+method, replay)
				}
			}
			caller[0], caller[1] = 901, 902
			for i := range full {
				full[i] = 900 + i
			}
			if ints(s.All()) != ints(before) {
				r.Violate("C20", "C20/slice/shares-storage/"+method+"/aliases-caller", "writing the caller's slice after "+method+" changed the Slice: "+ints(before)+" -> "+ints(s.All()), replay)
			}
		}
	}
}

func emitterFamily(r *Rec, nSeq int) {
	for s := 0; s < nSeq; s++ {
		it := &utlInterp{}
		var replay []string
		do := func(op string) string {
			out := it.Exec(op)
			r.Op(op, out)
			replay = append(replay, op)
			return out
		}
		do("utl em new")
		r.scenarios++
		// reference: registrations in order: (id, once, spent); nil entries are kept (id -1)
		type regn struct {
			id    int
			once  bool
			spent bool
		}
		var regs []regn
		withNil := r.rng.IntN(4) == 0
		for k := 0; k < 10; k++ {
			switch c := r.rng.IntN(6); {
			case c <= 1:
				n := 1 + r.rng.IntN(3)
				var ids []string
				kind := []string{"on", "once"}[r.rng.IntN(2)]
				for i := 0; i < n; i++ {
					if withNil && r.rng.IntN(3) == 0 {
						ids = append(ids, "n")
						regs = append(regs, regn{-1, false, false})
					} else {
						id := r.rng.IntN(5)
						ids = append(ids, fmt.Sprint(id))
						regs = append(regs, regn{id, kind == "once", false})
					}
				}
				out := do("utl em " + kind + " x " + strings.Join(ids, ","))
				if out != fmt.Sprintf("count=%d", len(regs)) {
					r.Violate("C20", "C20/emitter/register", "registration count: "+out, replay)
				}
			case c <= 3:
				out := do("utl em emit x")
				// every registration present when the emit starts, in order, once; once-entries only unspent
				var calls []int
				snapshot := append([]regn{}, regs...)
				for i, g := range snapshot {
					if g.id < 0 || (g.once && g.spent) {
						continue
					}
					calls = append(calls, g.id)
					if g.once {
						// mark spent and remove one registration of that function (the first with that id)
						for j := range regs {
							if regs[j].id == g.id && regs[j].once && !regs[j].spent {
								regs[j].spent = true
								break
							}
						}
						_ = i
						for j := range regs {
							if regs[j].id == g.id {
								regs = append(regs[:j:j], regs[j+1:]...)
								break
							}
						}
					}
				}
				r.Cover(fmt.Sprintf("em/emit/n=%d/nil=%s", min(len(calls), 4), b01(withNil)))
				if out == "panic" {
					r.Violate("C20", "C20/emitter/emit/panic", "Emit panicked", replay)
					return
				}
				if !strings.HasPrefix(out, "calls="+ints(calls)+" ") {
					r.Violate("C20", "C20/emitter/emit/order-or-count", fmt.Sprintf("emit called %s, want %s", out, ints(calls)), replay)
					return
				}
			default:
				id := r.rng.IntN(5)
				out := do(fmt.Sprintf("utl em remove x %d", id))
				want := "0"
				for j := range regs {
					if regs[j].id == id {
						regs = append(regs[:j:j], regs[j+1:]...)
						want = "1"
						break
					}
				}
				r.Cover("em/remove/" + want + "/nil=" + b01(withNil))
				if out == "panic" {
					r.Violate("C20", "C20/emitter/remove/panic-with-nil-listener", "RemoveListener panicked (a nil listener is registered)", replay)
					return
				}
				if out != fmt.Sprintf("%s count=%d", want, len(regs)) {
					r.Violate("C20", "C20/emitter/remove/not-exactly-one", fmt.Sprintf("remove => %s, want %s count=%d", out, want, len(regs)), replay)
					return
				}
			}
		}
	}
	// listeners that add / remove listeners during an emit
	{
		it := &utlInterp{}
		ops := []string{"utl em new", "utl em on x 0,1,2", "utl em react 0 em_remove_x_2", "utl em react 1 em_on_x_3", "utl em emit x", "utl em emit x"}
		var outs []string
		for _, op := range ops {
			o := it.Exec(op)
			r.Op(op, o)
			outs = appendLive(outs, o)
		}
		r.scenarios++
		r.Cover("em/mutation-during-emit")
		if outs[4] != "calls=0,1,2 count=3" || outs[5] != "calls=0,1,3 count=4" {
			r.Violate("C20", "C20/emitter/mutation-during-emit", fmt.Sprintf("snapshot semantics: %s then %s", outs[4], outs[5]), ops)
		}
	}
	// a Once listener under concurrent emits runs at most once (monitor only; needs real threads)
	for trial := 0; trial < 20; trial++ {
		em := types.NewEventEmitter()
		var mu sync.Mutex
		n := 0
		em.Once("x", func(...any) { mu.Lock(); n++; mu.Unlock() })
		var wg sync.WaitGroup
		for g := 0; g < 8; g++ {
			wg.Add(1)
			go func() { defer wg.Done(); em.Emit("x") }()
		}
		wg.Wait()
		r.Cover("em/once-concurrent")
		if n != 1 {
			r.Violate("C20", "C20/emitter/once-concurrent", fmt.Sprintf("Once listener ran %d times under 8 concurrent emits", n), []string{"Go: Once + 8 concurrent Emit"})
		}
	}
}

func idsFamily(r *Rec) {
	// base64 ids: format, uniqueness, sequence layout (ops carry the observed random part)
	seen := map[string]bool{}
	var prev uint64
	for i := 0; i < 300; i++ {
		id, err := utils.Base64Id().GenerateId()
		if err != nil {
			r.Violate("C04", "C04/ids/error", err.Error(), nil)
			break
		}
		raw, derr := base64.RawURLEncoding.DecodeString(id)
		if derr != nil || len(raw) != 18 || len(id) != 24 {
			r.Violate("C04", "C04/ids/format", "id "+id+" is not 18 bytes of unpadded base64url", nil)
			break
		}
		seq := binary.BigEndian.Uint64(raw[10:])
		r.Op(fmt.Sprintf("utl b64id %s %d", hx(raw[:10]), seq), hx([]byte(id)))
		r.Cover(fmt.Sprintf("b64id/seqmod4=%d", seq%4))
		for _, c := range id {
			if !(c >= 'A' && c <= 'Z' || c >= 'a' && c <= 'z' || c >= '0' && c <= '9' || c == '-' || c == '_') {
				r.Violate("C04", "C04/ids/url-unsafe", "id "+id+" has a character outside A-Za-z0-9-_", nil)
			}
		}
		if seen[id] {
			r.Violate("C04", "C04/ids/duplicate", "id returned twice: "+id, nil)
		}
		seen[id] = true
		if i > 0 && seq != prev+1 {
			r.Violate("C04", "C04/ids/sequence", fmt.Sprintf("sequence went from %d to %d", prev, seq), nil)
		}
		prev = seq
	}
	// concurrent generation: all distinct
	{
		var mu sync.Mutex
		var wg sync.WaitGroup
		dup := ""
		for g := 0; g < 8; g++ {
			wg.Add(1)
			go func() {
				defer wg.Done()
				for i := 0; i < 200; i++ {
					id, _ := utils.Base64Id().GenerateId()
					mu.Lock()
					if seen[id] {
						dup = id
					}
					seen[id] = true
					mu.Unlock()
				}
			}()
		}
		wg.Wait()
		r.Cover("b64id/concurrent")
		if dup != "" {
			r.Violate("C04", "C04/ids/duplicate-concurrent", "id returned twice under concurrent use: "+dup, nil)
		}
	}
	// yeast codec
	it := &utlInterp{}
	for _, n := range []int{0, 1, 63, 64, 65, 4095, 4096, 1 << 31, 946684800000, 1<<62 + 12345, r.rng.IntN(1 << 40)} {
		op := fmt.Sprintf("utl yeast enc %d", n)
		out := it.Exec(op)
		r.Op(op, out)
		op2 := "utl yeast dec " + out
		out2 := it.Exec(op2)
		r.Op(op2, out2)
		r.Cover("yeast/codec")
		if out2 != fmt.Sprint(n) {
			r.Violate("C20", "C20/yeast/codec", fmt.Sprintf("Decode(Encode(%d)) = %s", n, out2), []string{op, op2})
		}
	}
}

// ---- yeast under virtual time ---------------------------------------------

// yeast ops: "yeast cfg" | "yeast next" | "yeast sleep <ms>" | "yeast burst <goroutines>"
func yeastRun(t *testing.T, lines []string) []string {
	var outs []string
	bubble(t, func(t *testing.T) {
		var y *utils.Yeast
		for _, l := range lines {
			f := strings.Fields(l)
			switch f[1] {
			case "cfg":
				y = utils.NewYeast()
				outs = appendLive(outs, fmt.Sprint(time.Now().UnixMilli()))
			case "next":
				outs = appendLive(outs, hx([]byte(y.Yeast())))
			case "sleep":
				time.Sleep(time.Duration(atoi(f[2])) * time.Millisecond)
				synctest.Wait()
				outs = appendLive(outs, "ok")
			default:
				outs = appendLive(outs, "bad-op")
			}
		}
	})
	return outs
}

func famYeast(t *testing.T, r *Rec) {
	n := 20
	if r.thorough() {
		n = 200
	}
	for s := 0; s < n; s++ {
		lines := []string{"yeast cfg"}
		for k := 0; k < 14; k++ {
			if r.rng.IntN(3) == 0 {
				lines = append(lines, fmt.Sprintf("yeast sleep %d", []int{1, 1, 2, 64, 1000}[r.rng.IntN(5)]))
			} else {
				lines = append(lines, "yeast next")
			}
		}
		outs := yeastRun(t, lines)
		r.scenarios++
		seen := map[string]bool{}
		for i, l := range lines {
			r.Op(l, outs[i])
			if l == "yeast next" {
				r.Cover(fmt.Sprintf("yeast/next/dotted=%s", b01(strings.Contains(string(unhx(outs[i])), "."))))
				if seen[outs[i]] {
					r.Violate("C20", "C20/yeast/duplicate-sequential", "yeast returned "+string(unhx(outs[i]))+" twice", lines[:i+1])
				}
				seen[outs[i]] = true
			}
		}
	}
	// concurrent use (real threads, real clock): search only
	dups := 0
	for trial := 0; trial < 30 && dups == 0; trial++ {
		y := utils.NewYeast()
		var mu sync.Mutex
		seen := map[string]int{}
		var wg sync.WaitGroup
		for g := 0; g < 8; g++ {
			wg.Add(1)
			go func() {
				defer wg.Done()
				for i := 0; i < 50; i++ {
					v := y.Yeast()
					mu.Lock()
					seen[v]++
					mu.Unlock()
				}
			}()
		}
		wg.Wait()
		for _, c := range seen {
			if c > 1 {
				dups++
			}
		}
	}
	r.Cover("yeast/concurrent")
	if dups > 0 {
		r.Violate("C20", "C20/yeast/duplicate-concurrent", "yeast returned the same value twice under 8 concurrent callers", []string{"Go: 8 goroutines x 50 calls of Yeast() on one instance"})
	}
}
