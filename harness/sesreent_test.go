package harness

import (
	"fmt"
	"strings"
	"testing"
	"time"
)

func init() {
	families["ses-reent"] = famSesReent
}

// famSesReent: listeners that call back into the session (C18, last clause):
// for every session event, a listener calls Send, Close(false) or Close(true)
// on the session from inside the event. Each scenario runs in its own child
// process under a wall-clock limit, because the failure looked for is a
// goroutine blocked for good on a lock it already holds. The model has no
// listeners: the scenarios are judged by monitors only (no hang, the message a
// listener sent arrives, a listener's Close closes the session exactly once).
func famSesReent(t *testing.T, r *Rec) {
	cfg := "ses cfg 25000 20000 1000 100000 default 1 0 - 0 -"
	reentOverlap(r, cfg)
	reentStalledUpload(r, cfg)
	reentPollDuringEncode(r, cfg)
	reentSendDuringEncode(r, cfg)
	reentCallbackWindow(r, cfg)
	reentUploadAcrossClose(r, cfg)
	reentSlowCallback(r, cfg)
	reentStalledPeer(r, cfg)
	reentPollAfterAbortedPoll(r)
	refusedUpgrades(r)
	events := []string{"packetCreate", "flush", "drain", "packet", "message", "close", "cb", "upgrade"}
	if r.thorough() {
		events = append(events, "heartbeat", "upgrading")
	}
	for _, tr := range []string{"polling", "websocket"} {
		for _, ev := range events {
			for _, act := range []string{"send", "close0", "close1"} {
				if ev == "close" && act != "send" {
					continue
				}
				lines := []string{cfg, fmt.Sprintf("ses hs %s 4 0 -", tr)}
				if tr == "polling" {
					lines = append(lines, "ses poll s0") // the handshake's payload is out, a poll is pending
				}
				lines = append(lines, fmt.Sprintf("ses react %s %s", ev, act))
				// make the event happen
				switch ev {
				case "packetCreate", "flush", "drain":
					lines = append(lines, "ses send s0 t 6d31 0 0 -")
				case "cb": // the callback of a send calls back into the session when its batch has drained
					lines = append(lines, "ses send s0 t 6d31 0 1 -")
				case "packet", "message":
					if tr == "polling" {
						lines = append(lines, "ses post s0 t 1 346331")
					} else {
						lines = append(lines, "ses frame 0 t 346331")
					}
				case "heartbeat":
					if tr == "polling" {
						lines = append(lines, "ses adv 25000", "ses post s0 t 1 33")
					} else {
						lines = append(lines, "ses adv 25000", "ses frame 0 t 33")
					}
				case "upgrading", "upgrade":
					if tr != "polling" {
						continue
					}
					lines = append(lines, "ses ws s0 4 0", "ses frame 0 t 3270726f6265", "ses adv 100", "ses frame 0 t 35")
				case "close":
					lines = append(lines, "ses close s0 1")
				}
				// let the client read what is owed to it
				if tr == "polling" {
					lines = append(lines, "ses poll s0", "ses poll s0")
				}
				if act != "send" {
					// a Close from inside a transport's drain event waits for the next drain or the close timeout: bounded
					lines = append(lines, "ses adv 31000")
				}
				lines = append(lines, "ses obs")
				outs, fault := runIsolated(lines, 12*time.Second)
				r.scenarios++
				name := fmt.Sprintf("%s/%s/%s", tr, ev, act)
				r.Cover("reent/" + name)
				if strings.Contains(fault, "main_bubble_goroutine_has_exited") {
					// every op was answered; a timer goroutine outlived the scenario's teardown
					// (e.g. the upgrade check interval armed after an 'upgrading' listener closed
					// the session): not a deadlock of the session, noted and judged like the others
					r.Cover("reent/leftover-goroutine/" + name)
					fault = ""
				}
				if fault != "" {
					what := "a listener of '" + ev + "' calling " + act + " on the session made the server " + fault
					r.Violate("C18", "C18/reentrant-listener/"+fault+"/"+ev+"/"+act+"/"+tr, what, lines)
					if ev == "upgrade" || ev == "upgrading" {
						r.Violate("C08", "C08/upgrade-listener/"+fault+"/"+ev+"/"+act, "a candidate that followed the protocol did not complete the switch: "+what, lines)
					}
					if act != "send" {
						// the close the listener asked for never completed: no close event, and the session stays in the client table
						r.Violate("C04", "C04/close-from-listener-never-completes/"+ev+"/"+act+"/"+tr, "the session a '"+ev+"' listener closed is stuck half-closed (the server "+fault+"): it never leaves the client table", lines)
						r.Violate("C03", "C03/close-from-listener-never-completes/"+ev+"/"+act+"/"+tr, "the session a '"+ev+"' listener closed never emitted its close event (the server "+fault+")", lines)
					}
					continue
				}
				// what the session and its client saw
				closes, reacted := 0, false
				var state, reg string
				for _, out := range outs {
					if out == "-" || out == "ok" {
						continue
					}
					o := parseObs(out)
					for _, e := range o.events {
						if e.who == "s0" && e.name == "close" {
							closes++
						}
					}
					for _, rs := range o.resps {
						if pk, err := decodeV4Payload(unhx(rs.body)); err == nil {
							for _, p := range pk {
								if p.typ == '4' && strings.HasPrefix(string(p.data), "re:") {
									reacted = true
								}
							}
						}
					}
					for _, frs := range o.frames {
						for _, fr := range frs {
							if strings.HasPrefix(string(fr.data), "4re:") {
								reacted = true
							}
						}
					}
					if st, ok := o.states[0]; ok {
						state = st[0]
					}
					if o.reg != "" {
						reg = o.reg
					}
				}
				if state == "closed" && !strings.HasPrefix(reg, "-") {
					r.Violate("C04", "C04/closed-session-still-registered/close-from-listener/"+ev+"/"+act+"/"+tr, fmt.Sprintf("a '%s' listener called %s: the session is closed and the client table still reads %s", ev, act, reg), lines)
				}
				switch {
				case act == "send" && ev != "close" && !reacted:
					r.Violate("C18", "C18/reentrant-listener/send-lost/"+ev+"/"+tr, "the message a '"+ev+"' listener sent never reached the client although the session stayed open and the client kept reading", lines)
					r.Violate("C01", "C01/not-delivered/sent-from-listener/"+ev+"/"+tr, "a message accepted by Send (called from a '"+ev+"' listener) never reached the client although the session stayed open and the client kept reading", lines)
				case act != "send" && (state != "closed" || closes != 1):
					r.Violate("C18", "C18/reentrant-listener/close-ineffective/"+ev+"/"+act+"/"+tr, fmt.Sprintf("a '%s' listener called %s: session is %s with %d close events", ev, act, state, closes), lines)
				}
			}
		}
	}
}

// reentOverlap: a second data request arrives while a message listener is still busy with a packet of the
// first one (C02 submission order, C11 overlap): the second is refused with 400, the session closes with a
// transport error, and no packet of the second payload is delivered between two packets of the first.
func reentOverlap(r *Rec, cfg string) {
	for _, proto := range []int{4, 3} {
		a := encodeV4Payload([]epkt{{'4', "t", []byte("a1")}, {'4', "t", []byte("a2")}})
		b := encodeV4Payload([]epkt{{'4', "t", []byte("b1")}})
		if proto == 3 {
			a = encodeV3StringPayload([]epkt{{'4', "t", []byte("a1")}, {'4', "t", []byte("a2")}})
			b = encodeV3StringPayload([]epkt{{'4', "t", []byte("b1")}})
		}
		lines := []string{strings.Replace(cfg, " 1 0 - 0 -", " 1 1 - 0 -", 1), fmt.Sprintf("ses hs polling %d 0 -", proto), "ses react message park",
			"ses post s0 t 1 " + hx(a), "ses post s0 t 1 " + hx(b), "ses unpark", "ses obs"}
		outs, fault := runIsolated(lines, 12*time.Second)
		r.scenarios++
		r.Cover(fmt.Sprintf("reent/overlapping-post-during-dispatch/proto=%d", proto))
		if fault != "" && !strings.Contains(fault, "main_bubble_goroutine_has_exited") {
			r.Violate("C09", fmt.Sprintf("C09/%s/overlapping-post-during-dispatch", strings.SplitN(fault, ":", 2)[0]), "a data request arriving while a listener handles a packet of the previous one made the server "+fault, lines)
			continue
		}
		var msgs []string
		status := map[int]int{}
		for _, out := range outs {
			if out == "-" || out == "ok" {
				continue
			}
			o := parseObs(out)
			for _, e := range o.events {
				if e.who == "s0" && e.name == "message" {
					msgs = append(msgs, string(unhx(e.args[1])))
				}
			}
			for _, rs := range o.resps {
				status[rs.req] = rs.status
			}
		}
		order := strings.Join(msgs, ",")
		if order != "a1" && order != "a1,a2" && order != "a1,a2,b1" {
			r.Violate("C02", fmt.Sprintf("C02/submission-order/overlapping-post-during-dispatch/proto=%d", proto),
				"messages of two data requests were delivered as "+order+" (the second request arrived while a listener was busy with a1)", lines)
		}
		if status[2] != 400 {
			r.Violate("C11", fmt.Sprintf("C11/overlap-not-refused/during-dispatch/proto=%d", proto),
				fmt.Sprintf("a data request overlapping one whose packets were still being dispatched was answered %d, want 400", status[2]), lines)
		}
	}
}

// reentStalledUpload: a second data request arrives while the first is still uploading its body (C11).
func reentStalledUpload(r *Rec, cfg string) {
	a := encodeV4Payload([]epkt{{'4', "t", []byte("a1")}})
	b := encodeV4Payload([]epkt{{'4', "t", []byte("b1")}})
	lines := []string{cfg, "ses hs polling 4 0 -", "ses postslow s0 " + hx(a), "ses post s0 t 1 " + hx(b), "ses unpark", "ses obs"}
	outs, fault := runIsolated(lines, 12*time.Second)
	r.scenarios++
	r.Cover("reent/overlapping-post-during-upload")
	if fault != "" && !strings.Contains(fault, "main_bubble_goroutine_has_exited") {
		r.Violate("C09", fmt.Sprintf("C09/%s/overlapping-post-during-upload", strings.SplitN(fault, ":", 2)[0]), "a data request arriving while the previous one was still uploading made the server "+fault, lines)
		return
	}
	status := map[int]int{}
	closed := ""
	for _, out := range outs {
		if out == "-" || out == "ok" {
			continue
		}
		o := parseObs(out)
		for _, rs := range o.resps {
			status[rs.req] = rs.status
		}
		for _, e := range o.events {
			if e.who == "s0" && e.name == "close" {
				closed = e.args[0]
			}
		}
	}
	if status[2] != 400 || closed != "transport_error" {
		r.Violate("C11", "C11/overlap-not-refused/during-upload",
			fmt.Sprintf("a data request overlapping one that was still uploading its body was answered %d (want 400) and the session closed with %q (want transport_error)", status[2], closed), lines)
	}
}

// reentPollDuringEncode: a poll arrives while the answer to the pending one is still being encoded (the message
// data is a reader that stalls): the pending poll is still outstanding, so the newcomer overlaps it (C11).
func reentPollDuringEncode(r *Rec, cfg string) {
	lines := []string{cfg, "ses hs polling 4 0 -", "ses poll s0", "ses sendslow s0 " + hx([]byte("slowly-read-message")), "ses poll s0", "ses unpark", "ses adv 10", "ses obs"}
	outs, fault := runIsolated(lines, 12*time.Second)
	r.scenarios++
	r.Cover("reent/poll-during-encode")
	if fault != "" && !strings.Contains(fault, "main_bubble_goroutine_has_exited") {
		r.Violate("C09", fmt.Sprintf("C09/%s/poll-during-encode", strings.SplitN(fault, ":", 2)[0]), "a poll arriving while the answer to the pending one was being encoded made the server "+fault, lines)
		return
	}
	answers := map[int][]int{}
	closed, pend := "", "-"
	for _, out := range outs {
		if out == "-" || out == "ok" {
			continue
		}
		o := parseObs(out)
		for _, rs := range o.resps {
			answers[rs.req] = append(answers[rs.req], rs.status)
		}
		for _, e := range o.events {
			if e.who == "s0" && e.name == "close" {
				closed = e.args[0]
			}
		}
		pend = o.pend
	}
	// requests: 0 handshake, 1 the pending poll, 2 the overlapping poll
	if len(answers[2]) != 1 || answers[2][0] != 400 || closed != "transport_error" {
		r.Violate("C11", "C11/overlap-not-refused/during-encode",
			fmt.Sprintf("a poll overlapping one whose answer was still being encoded was answered %v (want one 400) and the session closed with %q (want transport_error)", answers[2], closed), lines)
	}
	if len(answers[1]) != 1 || pend != "-" {
		r.Violate("C11", "C11/request-never-answered/during-encode",
			fmt.Sprintf("the first poll got %d answers and request(s) %s are still pending at the end: every accepted request gets exactly one response", len(answers[1]), pend), lines)
	}
}

// reentSendDuringEncode: the application sends while a batch already handed to the polling transport is still being
// encoded (its first message is a reader that stalls): the response carries exactly the batch that was handed over,
// the later messages travel with the next one (C16 "exactly the packets handed to the transport for that cycle", C01).
func reentSendDuringEncode(r *Rec, cfg string) {
	// no poll is pending while the first two messages are accepted, so they form one batch when the poll arrives
	lines := []string{cfg, "ses hs polling 4 0 -", "ses sendslow s0 " + hx([]byte("slow-x")), "ses send s0 t " + hx([]byte("a2")) + " 0 0 -",
		"ses poll s0", "ses send s0 t " + hx([]byte("b1")) + " 0 0 -", "ses send s0 t " + hx([]byte("b2")) + " 0 0 -", "ses unpark", "ses adv 10", "ses poll s0", "ses obs"}
	outs, fault := runIsolated(lines, 12*time.Second)
	r.scenarios++
	r.Cover("reent/send-during-encode")
	if fault != "" && !strings.Contains(fault, "main_bubble_goroutine_has_exited") {
		r.Violate("C09", fmt.Sprintf("C09/%s/send-during-encode", strings.SplitN(fault, ":", 2)[0]), "a Send while the previous batch was being encoded made the server "+fault, lines)
		return
	}
	var bodies [][]string
	for _, out := range outs {
		if out == "-" || out == "ok" {
			continue
		}
		for _, rs := range parseObs(out).resps {
			if rs.status != 200 || rs.req < 1 {
				continue
			}
			pk, err := decodeV4Payload(unhx(rs.body))
			var names []string
			for _, p := range pk {
				if p.typ == '4' {
					names = append(names, string(p.data))
				}
			}
			if err != nil {
				names = append(names, "undecodable")
			}
			bodies = append(bodies, names)
		}
	}
	got := fmt.Sprint(bodies)
	if got != "[[slow-x a2] [b1 b2]]" {
		for _, pr := range []string{"C16", "C01"} {
			r.Violate(pr, pr+"/batch-changed-while-encoding/polling", "messages sent while the batch [slow-x a2] was being encoded: the poll responses carry "+got+", want [[slow-x a2] [b1 b2]]", lines)
		}
	}
}

// reentCallbackWindow: a Send with a callback is still inside its packetCreate event when the transport
// becomes ready and an earlier packet is flushed: the callback belongs to the later batch (C18).
func reentCallbackWindow(r *Rec, cfg string) {
	lines := []string{cfg, "ses hs polling 4 0 -", "ses arm nowhere", "ses send s0 t 6131 0 0 -", "ses react packetCreate park",
		"ses send s0 t 6231 0 1 -", "ses poll s0", "ses unpark", "ses poll s0", "ses obs"}
	outs, fault := runIsolated(lines, 12*time.Second)
	r.scenarios++
	r.Cover("reent/callback-of-a-send-still-in-packetCreate")
	if fault != "" && !strings.Contains(fault, "main_bubble_goroutine_has_exited") {
		r.Violate("C18", "C18/reentrant-listener/"+strings.SplitN(fault, ":", 2)[0]+"/send-parked-in-packetCreate", "a flush while a Send was still inside its packetCreate event made the server "+fault, lines)
		return
	}
	flushes, cbAfter := 0, -1
	for _, out := range outs {
		if out == "-" || out == "ok" {
			continue
		}
		for _, e := range parseObs(out).events {
			if e.who != "s0" {
				continue
			}
			if e.name == "flush" {
				flushes++
			}
			if e.name == "cb" && cbAfter < 0 {
				cbAfter = flushes
			}
		}
	}
	if cbAfter >= 0 && cbAfter < 2 {
		r.Violate("C18", "C18/callback/before-flush-of-its-batch/send-parked-in-packetCreate",
			fmt.Sprintf("the callback of the second send ran after %d flush event(s): before the flush event of the batch that carries its packet", cbAfter), lines)
	}
}

// reentUploadAcrossClose: a data request is still uploading when the buffered orderly close goes out with a poll:
// the request is still answered (C11 "never none").
func reentUploadAcrossClose(r *Rec, cfg string) {
	a := encodeV4Payload([]epkt{{'4', "t", []byte("a1")}})
	for _, how := range []string{"close0", "close1"} {
		lines := []string{cfg, "ses hs polling 4 0 -"}
		if how == "close0" {
			lines = append(lines, "ses close s0 0", "ses postslow s0 "+hx(a), "ses poll s0", "ses unpark", "ses adv 10", "ses obs")
		} else {
			lines = append(lines, "ses postslow s0 "+hx(a), "ses close s0 1", "ses unpark", "ses adv 10", "ses obs")
		}
		outs, fault := runIsolated(lines, 12*time.Second)
		r.scenarios++
		r.Cover("reent/upload-across-close/" + how)
		if fault != "" && !strings.Contains(fault, "main_bubble_goroutine_has_exited") {
			r.Violate("C09", fmt.Sprintf("C09/%s/upload-across-close/%s", strings.SplitN(fault, ":", 2)[0], how), "a data request uploading across the close of its session made the server "+fault, lines)
			continue
		}
		last := parseObs(outs[len(outs)-1])
		if last.pend != "-" {
			r.Violate("C11", "C11/request-never-answered/upload-across-close/"+how, "a data request whose upload finished after its session's transport had closed was never answered: pending "+last.pend, lines)
		}
	}
}

// reentPollAfterAbortedPoll: the client gives up its pending poll and polls again while the server is still dealing
// with the first one's end (a slow "close" listener of an application middleware sits in front of the transport's).
// Whatever the server makes of the newcomer — an overlap (400, session closed) or a poll of a session that is gone —
// it answers it (C11: every request gets exactly one response, a pending poll at the latest when its session closes).
func reentPollAfterAbortedPoll(r *Rec) {
	lines := []string{"ses cfg 25000 20000 1000 100000 default 1 0 - 0 - - - slowclose", "ses hs polling 4 0 -", "ses poll s0", "ses react reqclose park",
		"ses abort 1", "ses poll s0", "ses unpark", "ses adv 10", "ses obs", "ses adv 31000", "ses obs"}
	outs, fault := runIsolated(lines, 15*time.Second)
	r.scenarios++
	r.Cover("reent/poll-after-aborted-poll")
	if fault != "" && !strings.Contains(fault, "main_bubble_goroutine_has_exited") {
		r.Violate("C11", "C11/"+strings.SplitN(fault, ":", 2)[0]+"/poll-after-aborted-poll", "a poll arriving while the abort of the previous one was still being handled made the server "+fault, lines)
		return
	}
	answered := false
	for _, out := range outs {
		if out == "-" || out == "ok" {
			continue
		}
		for _, rs := range parseObs(out).resps {
			if rs.req == 2 {
				answered = true
			}
		}
	}
	last := parseObs(outs[len(outs)-1])
	if !answered || last.pend != "-" {
		r.Violate("C11", "C11/request-never-answered/poll-after-aborted-poll", fmt.Sprintf("the poll that arrived while the abort of the previous one was still being handled was never answered (answered=%v, pending at the end: %s)", answered, last.pend), lines)
	}
}

// reentSlowCallback: the first callback of a batch sends again, with a callback of its own, and is slow to return:
// the callbacks still run in the order of their sends (C18).
func reentSlowCallback(r *Rec, cfg string) {
	// (WebSocket only: the polling writer runs the callbacks while it holds the transport's lock, and a goroutine
	// waiting for a mutex is not a durable block for the bubble; a slow callback there only delays the next write)
	for _, tr := range []string{"websocket"} {
		lines := []string{cfg, fmt.Sprintf("ses hs %s 4 0 -", tr)}
		if tr == "polling" {
			lines = append(lines, "ses send s0 t 78 0 0 -", "ses send s0 t 6131 0 1 -", "ses send s0 t 6231 0 1 -", "ses react cb sendcbpark", "ses poll s0", "ses poll s0", "ses unpark", "ses poll s0", "ses poll s0", "ses obs")
		} else {
			// a batch in flight, two sends with callbacks behind it: they form one batch
			lines = append(lines, "ses+ send s0 t 78 0 0 -", "ses+ send s0 t 6131 0 1 -", "ses+ send s0 t 6231 0 1 -", "ses react cb sendcbpark", "ses obs", "ses unpark", "ses obs")
		}
		outs, fault := runIsolated(lines, 12*time.Second)
		r.scenarios++
		r.Cover("reent/slow-callback-that-sends/" + tr)
		if fault != "" && !strings.Contains(fault, "main_bubble_goroutine_has_exited") {
			r.Violate("C18", "C18/reentrant-listener/"+strings.SplitN(fault, ":", 2)[0]+"/slow-callback-that-sends/"+tr, "a send callback that sends again and is slow to return made the server "+fault, lines)
			continue
		}
		var order []string
		for _, out := range outs {
			if out == "-" || out == "ok" {
				continue
			}
			for _, e := range parseObs(out).events {
				if e.who == "s0" && e.name == "cb" {
					order = append(order, e.args[0])
				}
			}
		}
		if got := strings.Join(order, ","); got != "1,2,3" {
			r.Violate("C18", "C18/callback/order/slow-callback-that-sends/"+tr, "callbacks ran in the order "+got+", want 1,2,3 (callback 1 sends the message whose callback is 3, then takes its time)", lines)
		}
	}
}

// reentStalledPeer: the peer of a WebSocket session has stopped reading, a batch is stuck in the connection:
// Close(true) and Server.Close still close the session at once, once (C12).
func reentStalledPeer(r *Rec, cfg string) {
	big := hx(bytes_repeat('z', 300000))
	for _, how := range []string{"ses close s0 1", "ses shutdown"} {
		lines := []string{cfg, "ses hs websocket 4 0 -", "ses stall 0", "ses send s0 t 6c617374 0 0 -", "ses send s0 t " + big + " 0 0 -", how, "ses obs"}
		outs, fault := runIsolated(lines, 12*time.Second)
		r.scenarios++
		name := strings.Fields(how)[1]
		r.Cover("reent/stalled-peer/" + name)
		if fault != "" && !strings.Contains(fault, "main_bubble_goroutine_has_exited") {
			r.Violate("C12", "C12/"+strings.SplitN(fault, ":", 2)[0]+"/stalled-peer/"+name, "closing a session whose peer has stopped reading made the server "+fault, lines)
			continue
		}
		closes, state, reg := 0, "", ""
		for _, out := range outs {
			if out == "-" || out == "ok" {
				continue
			}
			o := parseObs(out)
			for _, e := range o.events {
				if e.who == "s0" && e.name == "close" {
					closes++
				}
			}
			if st, ok := o.states[0]; ok {
				state = st[0]
			}
			reg = o.reg
		}
		if state != "closed" || closes != 1 || reg != "-:0" {
			r.Violate("C12", "C12/not-closed-at-once/stalled-peer/"+name, fmt.Sprintf("a batch is stuck in the connection of a peer that stopped reading; after %s the session is %s with %d close events, the table is %s", name, state, closes, reg), lines)
		}
	}
}

// refusedUpgrades (monitor only, C05): an upgrade request that passes every admission check and is then refused by the
// WebSocket handshake itself (a version other than 13, no key, a writer that cannot be hijacked) is answered with the
// documented error and nothing else: 400, JSON {"code":3,"message":"Bad request"}, one connection_error, no session.
func refusedUpgrades(r *Rec) {
	for _, how := range []string{"12", "8", "nokey", "13"} { // ("13": well-formed, but the test's response writer cannot be hijacked)
		for _, withSid := range []bool{false, true} {
			lines := []string{"ses cfg 25000 20000 1000 100000 default 1 0 - 0 -", "ses hs polling 4 0 -"}
			target := "-"
			if withSid {
				target = "s0"
			}
			lines = append(lines, fmt.Sprintf("ses badupgrade %s %s", target, how), "ses obs")
			outs, fault := runIsolated(lines, 10*time.Second)
			r.scenarios++
			name := fmt.Sprintf("%s/sid=%v", how, withSid)
			r.Cover("reent/refused-upgrade/" + name)
			if fault != "" && !strings.Contains(fault, "main_bubble_goroutine_has_exited") {
				r.Violate("C05", "C05/refused-upgrade/"+strings.SplitN(fault, ":", 2)[0]+"/"+name, "an upgrade request refused by the WebSocket handshake made the server "+fault, lines)
				continue
			}
			var got []string
			cerr := 0
			for _, out := range outs[2:] {
				if out == "-" || out == "ok" {
					continue
				}
				o := parseObs(out)
				for _, rs := range o.resps {
					got = append(got, fmt.Sprintf("%d %s %s", rs.status, rs.ct, unhx(rs.body)))
				}
				for _, e := range o.events {
					if e.who == "srv" && e.name == "connection_error" {
						cerr++
					}
				}
			}
			want := `400 json {"code":3,"message":"Bad request"}`
			if len(got) != 1 || got[0] != want || cerr != 1 {
				r.Violate("C05", "C05/refused-upgrade/answer/"+name, fmt.Sprintf("answers %q with %d connection_error events, want exactly [%s] and one event", got, cerr, want), lines)
			}
		}
	}
}
