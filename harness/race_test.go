package harness

import (
	"fmt"
	"io"
	"net"
	"net/http"
	"net/http/httptest"
	"sync"
	"sync/atomic"
	"testing"
	"time"

	"strings"

	"github.com/zishang520/engine.io/v2/config"
	"github.com/zishang520/engine.io/v2/engine"
	"github.com/zishang520/engine.io/v2/types"
)

func init() {
	families["race"] = famRace
}

// famRace: the few places where the property is about two goroutines meeting
// in one object and no deterministic scheduler of ours sits in between (real
// goroutines, real parallelism, no model: monitors only).
//
//   - C11: two writers of one HttpContext: exactly one response goes out.
//   - C17: concurrent CORS preflights with different origins through one policy:
//     every response names its own request's origin, or none.
//   - C03: an application Close(true) and a close cause from the peer arriving together on fresh
//     sessions: the session ends closed, with exactly one close event.
func famRace(t *testing.T, r *Rec) {
	raceHttpContext(r)
	raceCors(r)
	raceCloseCauses(r)
	raceListenerShutdown(r)
	raceMapLookups(r)
}

// raceMapLookups (C04, C20): the client table is a types.Map. A key that has been stored and never deleted is found by
// every lookup, however many lookups, counts and walks of the table run at the same moment — the first long poll and the
// first upload of a fresh session arrive back to back — and no lookup ever costs another entry of the table.
func raceMapLookups(r *Rec) {
	// each round also counts the table (linear in its size), so a run costs rounds squared: the thorough tier takes
	// several tables of the quick tier's size instead of one ten times as large
	rounds, tables := 30000, 1
	if r.thorough() {
		tables = 6
	}
	bad := ""
	for tb := 0; tb < tables && bad == ""; tb++ {
		m := &types.Map[int, int]{}
		for i := 0; i < rounds && bad == ""; i++ {
			m.Store(i, i) // a fresh entry: it sits in the dirty half until a miss or a walk promotes it
			var wg sync.WaitGroup
			var miss atomic.Int32
			look := func(k int) {
				defer wg.Done()
				if v, ok := m.Load(k); !ok || v != k {
					miss.Add(1)
				}
			}
			start := make(chan struct{})
			wg.Add(6)
			for k := 0; k < 3; k++ {
				go func() { <-start; look(i) }()
			}
			go func() { defer wg.Done(); <-start; m.Load(-1 - i) }() // a lookup of an id nobody has: a miss, which may promote
			go func() { defer wg.Done(); <-start; m.Load(-2 - i) }()
			go func() {
				defer wg.Done()
				<-start
				if i%2 == 0 {
					m.Len()
				} else {
					m.Range(func(int, int) bool { return true })
				}
			}()
			close(start)
			wg.Wait()
			if miss.Load() > 0 {
				bad = fmt.Sprintf("round %d: %d of three lookups of the entry just stored did not find it", i, miss.Load())
			} else if n := m.Len(); n != i+1 {
				bad = fmt.Sprintf("round %d: the table holds %d entries, %d were stored and none deleted", i, n, i+1)
			} else if i > 0 {
				if _, ok := m.Load(i / 2); !ok {
					bad = fmt.Sprintf("round %d: entry %d, stored long ago and never deleted, is gone", i, i/2)
				}
			}
			if i%512 == 511 { // keep the table small: the race is about fresh entries
				m.Clear()
				for k := 0; k <= i; k++ {
					m.Store(k, k)
				}
				m.Range(func(int, int) bool { return true })
			}
		}
	}
	r.scenarios++
	r.Cover("race/map-lookups")
	if bad != "" {
		replay := []string{"Go: types.Map; per round: Store(fresh key), then at once 2 x Load(fresh key), Load(absent key), Len or Range"}
		r.Violate("C04", "C04/table/lookup-of-live-entry-misses", "the client table under concurrent lookups: "+bad, replay)
		r.Violate("C20", "C20/map/not-linearizable/concurrent-load", "types.Map under concurrent lookups: "+bad, replay)
	}
}

// raceListenerShutdown (C12): an engine attached to an HTTP server that really listens (types.HttpServer.Listen on a
// loopback port, a real HTTP client). Closing the HTTP server closes every session, each with one close event and
// reason "forced close", releases a pending long-poll with a close or noop packet, and leaves the client table empty —
// and does so promptly: a graceful listener shutdown waits for active requests, and the pending poll is one.
func raceListenerShutdown(r *Rec) {
	for _, pendingPoll := range []bool{true, false} {
		name := "between-polls"
		if pendingPoll {
			name = "poll-pending"
		}
		replay := []string{"Go: types.NewWebServer + engine.Attach + Listen(127.0.0.1:0); polling handshake over TCP; " + name + "; HttpServer.Close"}
		r.scenarios++
		r.Cover("race/listener-shutdown/" + name)
		l, err := net.Listen("tcp", "127.0.0.1:0")
		if err != nil {
			r.Cover("race/listener-shutdown/no-loopback")
			return
		}
		addr := l.Addr().String()
		l.Close()
		opts := &config.ServerOptions{}
		opts.SetPingInterval(10 * time.Minute)
		opts.SetPingTimeout(10 * time.Minute)
		hs := types.NewWebServer(nil)
		srv := engine.Attach(hs, opts)
		var mu sync.Mutex
		var reasons []string
		srv.On("connection", func(a ...any) {
			so := a[0].(engine.Socket)
			so.On("close", func(b ...any) {
				mu.Lock()
				reasons = append(reasons, fmt.Sprint(b[0]))
				mu.Unlock()
			})
		})
		hs.Listen(addr, nil)
		cl := &http.Client{Timeout: 20 * time.Second}
		get := func(q string) (string, error) {
			resp, err := cl.Get("http://" + addr + "/engine.io/?transport=polling&EIO=4" + q)
			if err != nil {
				return "", err
			}
			defer resp.Body.Close()
			b, err := io.ReadAll(resp.Body)
			return string(b), err
		}
		var body string
		for k := 0; k < 100; k++ { // the listener goroutine may need a moment
			if body, err = get(""); err == nil {
				break
			}
			time.Sleep(10 * time.Millisecond)
		}
		i := strings.Index(body, `"sid":"`)
		if err != nil || i < 0 {
			r.Cover("race/listener-shutdown/no-handshake")
			hs.Close(nil)
			return
		}
		sid := body[i+7 : i+7+strings.Index(body[i+7:], `"`)]
		pollDone := make(chan string, 1)
		if pendingPoll {
			go func() {
				b, err := get("&sid=" + sid)
				if err != nil {
					b = "error: " + err.Error()
				}
				pollDone <- b
			}()
			for k := 0; k < 400; k++ { // until the poll is pending on the transport
				if c, ok := srv.Clients().Load(sid); ok && c.Transport().Writable() {
					break
				}
				time.Sleep(5 * time.Millisecond)
			}
		}
		closed := make(chan struct{})
		go func() { hs.Close(nil); close(closed) }()
		select {
		case <-closed:
		case <-time.After(8 * time.Second):
			r.Violate("C12", "C12/http-server-close/does-not-return/"+name, "HttpServer.Close did not return within 8 s", replay)
		}
		if pendingPoll {
			select {
			case b := <-pollDone:
				if b != "1" && b != "6" {
					r.Violate("C12", "C12/http-server-close/pending-poll-not-released/"+name, "the pending poll was answered with "+fmt.Sprintf("%q", b)+", want a close or noop packet", replay)
				}
			case <-time.After(3 * time.Second):
				r.Violate("C12", "C12/http-server-close/pending-poll-not-released/"+name, "the pending poll was not released", replay)
			}
		}
		time.Sleep(50 * time.Millisecond)
		mu.Lock()
		got := strings.Join(reasons, ",")
		mu.Unlock()
		if got != "forced close" {
			r.Violate("C12", "C12/http-server-close/close-events/"+name, "close events of the session after HttpServer.Close: ["+got+"], want exactly one, reason forced close", replay)
		}
		if n := srv.ClientsCount(); n != 0 {
			r.Violate("C12", "C12/http-server-close/table-not-empty/"+name, fmt.Sprintf("clients count %d after HttpServer.Close", n), replay)
		}
	}
}

type gateRW struct {
	hdr     http.Header
	gate    chan struct{}
	entered chan struct{}
	headers atomic.Int32
	writes  atomic.Int32
}

func (g *gateRW) Header() http.Header { return g.hdr }
func (g *gateRW) WriteHeader(int) {
	if g.headers.Add(1) == 1 {
		g.entered <- struct{}{}
		<-g.gate // the first response is still on its way out
	}
}
func (g *gateRW) Write(p []byte) (int, error) { g.writes.Add(1); return len(p), nil }

func raceHttpContext(r *Rec) {
	rounds := 10
	if r.thorough() {
		rounds = 60
	}
	for i := 0; i < rounds; i++ {
		rw := &gateRW{hdr: http.Header{}, gate: make(chan struct{}), entered: make(chan struct{}, 2)}
		ctx := types.NewHttpContext(rw, httptest.NewRequest("POST", "/engine.io/?transport=polling&sid=x", nil))
		var wg sync.WaitGroup
		var errs atomic.Int32
		write := func(b string) {
			defer wg.Done()
			if _, err := ctx.Write([]byte(b)); err != nil {
				errs.Add(1)
			}
		}
		wg.Add(2)
		go write("first")
		select {
		case <-rw.entered:
		case <-time.After(5 * time.Second):
			r.Violate("C11", "C11/http-context/write-never-reached-the-response", "HttpContext.Write did not reach the response writer", []string{"race http-context"})
			return
		}
		go write("second") // arrives while the first response is being written
		time.Sleep(time.Duration(5+i%4*5) * time.Millisecond)
		close(rw.gate)
		wg.Wait()
		r.scenarios++
		r.Cover("race/http-context/two-writers")
		if h, w := rw.headers.Load(), rw.writes.Load(); h != 1 || w != 1 || errs.Load() != 1 {
			r.Violate("C11", "C11/http-context/two-responses", fmt.Sprintf("two writers of one request: %d status lines, %d bodies, %d refusals (want 1, 1, 1)", h, w, errs.Load()),
				[]string{"race http-context: a second HttpContext.Write arriving while the first one is inside ResponseWriter.WriteHeader"})
			return
		}
	}
}

func raceCors(r *Rec) {
	type cfg struct {
		name string
		c    *types.Cors
	}
	allowed := []any{"https://a.example", "https://b.example", "https://c.example"}
	cfgs := []cfg{
		{"cred+maxage", &types.Cors{Origin: allowed, Credentials: true, MaxAge: "600"}},
		{"cred+exposed", &types.Cors{Origin: allowed, Credentials: true, ExposedHeaders: "X-A"}},
		{"maxage+exposed", &types.Cors{Origin: allowed, MaxAge: "5", ExposedHeaders: []string{"X-A", "X-B"}}},
		{"all", &types.Cors{Origin: allowed, Credentials: true, MaxAge: "600", ExposedHeaders: "X-A", AllowedHeaders: "X-C"}},
		{"plain", &types.Cors{Origin: allowed}},
		{"cred", &types.Cors{Origin: allowed, Credentials: true}},
	}
	origins := []string{"https://a.example", "https://evil.example", "https://b.example", "https://worse.example", "https://c.example", "https://x.example"}
	isAllowed := map[string]bool{"https://a.example": true, "https://b.example": true, "https://c.example": true}
	per := 1500
	if r.thorough() {
		per = 9000 // six times the quick tier: the three thorough seeds run side by side and must finish well within the family's limit
	}
	for _, c := range cfgs {
		mw := types.MiddlewareWrapper(c.c)
		var bad atomic.Value
		var wg sync.WaitGroup
		for g := 0; g < 8; g++ {
			wg.Add(1)
			go func(g int) {
				defer wg.Done()
				for i := 0; i < per && bad.Load() == nil; i++ {
					method := "OPTIONS"
					if i%5 == 4 {
						method = "GET"
					}
					o := origins[(g+i)%len(origins)]
					req := httptest.NewRequest(method, "/engine.io/", nil)
					req.Header.Set("Origin", o)
					rec := httptest.NewRecorder()
					hc := types.NewHttpContext(rec, req)
					mw(hc, func(error) {})
					got := hc.ResponseHeaders.Peek("Access-Control-Allow-Origin")
					if (isAllowed[o] && got != o) || (!isAllowed[o] && got != "" && got != "false") {
						bad.Store(fmt.Sprintf("%s request with Origin %s answered with Access-Control-Allow-Origin %q", method, o, got))
					}
				}
			}(g)
		}
		wg.Wait()
		r.scenarios++
		r.Cover("race/cors/" + c.name)
		if b := bad.Load(); b != nil {
			r.Violate("C17", "C17/cors/concurrent-requests/other-origin/"+c.name, "under concurrent requests through one policy: "+b.(string),
				[]string{"race cors " + c.name + ": 8 goroutines, requests with allowed and refused origins interleaved"})
		}
	}
}

func raceCloseCauses(r *Rec) {
	pairs := 400
	if r.thorough() {
		pairs = 3200 // eight times the quick tier (see above)
	}
	opts := &config.ServerOptions{}
	opts.SetPingInterval(25 * time.Second)
	opts.SetPingTimeout(20 * time.Second)
	srv := engine.NewServer(opts)
	defer srv.Close()
	socks := make(chan engine.Socket, 1)
	srv.On("connection", func(a ...any) { socks <- a[0].(engine.Socket) })
	for _, peer := range []string{"close-packet", "overlapping-poll"} {
		bad := ""
		for i := 0; i < pairs && bad == ""; i++ {
			rec := httptest.NewRecorder()
			srv.ServeHTTP(rec, httptest.NewRequest("GET", "/engine.io/?transport=polling&EIO=4", nil))
			var so engine.Socket
			select {
			case so = <-socks:
			case <-time.After(5 * time.Second):
				bad = "handshake produced no session"
				continue
			}
			var closes atomic.Int32
			so.On("close", func(...any) { closes.Add(1) })
			u := "/engine.io/?transport=polling&EIO=4&sid=" + so.Id()
			var pending *httptest.ResponseRecorder
			if peer == "overlapping-poll" {
				pending = httptest.NewRecorder()
				go srv.ServeHTTP(pending, httptest.NewRequest("GET", u, nil))
				for k := 0; k < 2000 && !so.Transport().Writable(); k++ {
					time.Sleep(50 * time.Microsecond)
				}
			}
			var wg sync.WaitGroup
			wg.Add(2)
			go func() { defer wg.Done(); so.Close(true) }()
			go func() {
				defer wg.Done()
				if peer == "close-packet" {
					srv.ServeHTTP(httptest.NewRecorder(), httptest.NewRequest("POST", u, strings.NewReader("1")))
				} else {
					srv.ServeHTTP(httptest.NewRecorder(), httptest.NewRequest("GET", u, nil))
				}
			}()
			wg.Wait()
			for k := 0; k < 200 && so.ReadyState() != "closed"; k++ {
				time.Sleep(100 * time.Microsecond)
			}
			if st, n := so.ReadyState(), closes.Load(); st != "closed" || n != 1 {
				bad = fmt.Sprintf("pair %d: the session is %s with %d close events", i, st, n)
			}
		}
		r.scenarios++
		r.Cover("race/close-causes/" + peer)
		if bad != "" {
			r.Violate("C03", "C03/race/close1-x-"+peer, "Close(true) together with a "+peer+" from the peer: "+bad,
				[]string{"race close-causes " + peer + ": fresh polling sessions, Close(true) and the peer's cause on two goroutines"})
		}
	}
}
