package harness

import (
	"encoding/json"
	"errors"
	"fmt"
	"net/http"
	"net/url"
	"strings"
	"testing"
	"testing/synctest"

	"github.com/zishang520/engine.io/v2/config"
	"github.com/zishang520/engine.io/v2/types"
)

// Scenario-level families: a scenario is a list of op lines starting with a
// `cfg` line; it runs inside one synctest bubble.
type scenarioRunner func(t *testing.T, lines []string) []string

var scenarioRunners = map[string]scenarioRunner{}

func init() {
	families["adm"] = famAdm
	scenarioRunners["adm"] = admRun
}

func csvHex(vals []string) string {
	if vals == nil {
		return "-"
	}
	hs := make([]string, len(vals))
	for i, v := range vals {
		hs[i] = hx([]byte(v))
		if hs[i] == "-" {
			hs[i] = "e" // empty value, present
		}
	}
	return strings.Join(hs, ",")
}

func unCsvHex(s string) []string {
	if s == "-" {
		return nil
	}
	var out []string
	for _, h := range strings.Split(s, ",") {
		if h == "e" {
			out = append(out, "")
		} else {
			out = append(out, string(unhx(h)))
		}
	}
	return out
}

// admRun executes one admission/routing scenario on the real server.
func admRun(t *testing.T, lines []string) []string {
	outs := make([]string, 0, len(lines))
	bubble(t, func(t *testing.T) {
		var w *world
		hookMsg := ""
		defer func() {
			if w != nil {
				w.teardown()
			}
		}()
		for _, line := range lines {
			f := strings.Fields(line)
			if w == nil && f[1] != "cfg" {
				outs = appendLive(outs, "no-server")
				continue
			}
			switch f[1] {
			case "cfg":
				// adm cfg <transports> <eio3> <hook> <mw> <attach> <before> <after>
				opts := &config.ServerOptions{}
				if f[2] != "default" {
					opts.SetTransports(types.NewSet(strings.Split(f[2], ",")...))
				}
				if f[3] == "1" {
					opts.SetAllowEIO3(true)
				}
				switch {
				case f[4] == "ok":
					opts.SetAllowRequest(func(*types.HttpContext) error { return nil })
				case strings.HasPrefix(f[4], "err:"):
					hookMsg = string(unhx(f[4][4:]))
					m := hookMsg
					opts.SetAllowRequest(func(*types.HttpContext) error { return errors.New(m) })
				}
				at := &attachSpec{mode: "none"}
				switch {
				case f[6] == "server":
					at.mode = "server"
				case strings.HasPrefix(f[6], "opts:"):
					at.mode = "opts"
					p := strings.Split(f[6], ":")
					if p[1] != "-" {
						s := string(unhx(p[1]))
						if p[1] == "e" {
							s = ""
						}
						at.path = &s
					}
					if p[2] != "-" {
						b := p[2] == "1"
						at.addSlash = &b
					}
				}
				at.before = unCsvHex(f[7])
				at.after = unCsvHex(f[8])
				var attachPanic any
				func() {
					defer func() { attachPanic = recover() }()
					w = newWorld(t, opts, at)
				}()
				if attachPanic != nil {
					// Attach itself blew up (e.g. an invalid mux pattern): the configuration is answered, what follows has no server
					w = nil
					outs = appendLive(outs, "panic:attach:"+strings.ReplaceAll(fmt.Sprint(attachPanic), " ", "_"))
					continue
				}
				if f[5] == "fail" {
					w.srv.Use(func(ctx *types.HttpContext, next func(error)) { next(errors.New("middleware says no")) })
				}
				outs = appendLive(outs, "ok")
			case "mk":
				before := len(w.socks)
				if f[2] == "polling" {
					w.request("GET", "/engine.io/?transport=polling&EIO="+f[3], nil, nil, false, false)
				} else {
					w.wsDial("/engine.io/?transport=websocket&EIO="+f[3], nil, false)
				}
				if len(w.socks) == before+1 {
					outs = appendLive(outs, fmt.Sprintf("s%d", before))
				} else {
					outs = appendLive(outs, "failed")
				}
			case "kill":
				if s := w.sock(atoi(f[2])); s != nil {
					s.Close(true)
					synctest.Wait()
				}
				outs = appendLive(outs, "ok")
			case "req":
				outs = appendLive(outs, w.admReq(f))
			case "route": // adm route <path hex> [method]: which handler serves the path
				before := len(w.served)
				nsock := len(w.socks)
				method := "GET"
				if len(f) > 3 {
					method = f[3]
				}
				h := w.request(method, string(unhx(f[2]))+"?transport=polling&EIO=4", nil, nil, false, true)
				switch {
				case len(w.served) > before:
					outs = appendLive(outs, w.served[len(w.served)-1])
				case len(w.socks) == nsock+1 && h.rec.Code == 200:
					outs = appendLive(outs, "engine")
				case method != "GET" && h.rec.Code == 400 && strings.Contains(h.rec.Body.String(), "Bad handshake method"):
					outs = appendLive(outs, "engine") // the engine's own refusal of a handshake that is not a GET
				default:
					outs = appendLive(outs, fmt.Sprintf("other status=%d", h.rec.Code))
				}
			default:
				outs = appendLive(outs, "bad-op")
			}
		}
	})
	return outs
}

func sessStates(w *world) string {
	var sb strings.Builder
	for _, s := range w.socks {
		sb.WriteByte(s.ReadyState()[0:1][0])
		if s.Upgrading() {
			sb.WriteByte('^')
		}
	}
	if sb.Len() == 0 {
		return "-"
	}
	return sb.String()
}

// adm req <http|ws> <method> <transport vals> <sid> <eio vals> <origin hex>
func (w *world) admReq(f []string) string {
	q := url.Values{}
	for _, v := range unCsvHex(f[4]) {
		q.Add("transport", v)
	}
	// the sid field: "-" (absent), or one or more values joined by "+" (a repeated parameter, in that order):
	// s<n> the id of session n, e the empty string, x<hex> that text
	for _, tok := range strings.Split(f[5], "+") {
		switch {
		case tok == "-":
		case tok == "e":
			q.Add("sid", "")
		case tok[0] == 's':
			if s := w.sock(atoi(tok[1:])); s != nil {
				q.Add("sid", s.Id())
			}
		default:
			q.Add("sid", string(unhx(tok[1:])))
		}
	}
	for _, v := range unCsvHex(f[6]) {
		q.Add("EIO", v)
	}
	hdr := http.Header{}
	if f[7] != "-" {
		hdr["Origin"] = []string{string(unhx(f[7]))}
	}
	target := "/engine.io/?" + q.Encode()
	cerr0, nsock0 := len(w.cerr), len(w.socks)
	states0 := sessStates(w)
	reg0 := w.registry()
	tail := func() string {
		st := sessStates(w)[:len(states0)]
		if states0 == "-" {
			st = "-"
		}
		same := "same"
		if st != states0 {
			same = "changed:" + states0 + ">" + st
		}
		r := "reg=same"
		if w.registry() != reg0 {
			r = "reg=changed"
		}
		return fmt.Sprintf("cerr=%d new=%d %s sessions=%s", len(w.cerr)-cerr0, len(w.socks)-nsock0, r, same)
	}
	if f[2] == "http" {
		var body []byte
		if f[3] == "POST" {
			body = []byte("6") // a noop packet (every session here is made with EIO=4)
		}
		// make sure a dispatched poll is answered at once
		lastSid := f[5][strings.LastIndex(f[5], "+")+1:] // the value that counts when the parameter is repeated
		if lastSid[0] == 's' && f[3] == "GET" {
			if s := w.sock(atoi(lastSid[1:])); s != nil && s.ReadyState() == "open" {
				s.Send(strings.NewReader("x"), nil, nil)
				synctest.Wait()
			}
		}
		h := w.request(f[3], target, hdr, body, true, false)
		if !h.finished() {
			h.abort()
			return "pending " + tail()
		}
		ct := h.rec.Header().Get("Content-Type")
		if h.rec.Code >= 400 {
			var cm struct {
				Code    *int    `json:"code"`
				Message *string `json:"message"`
			}
			if ct == "application/json" && json.Unmarshal(h.rec.Body.Bytes(), &cm) == nil && cm.Code != nil {
				msg := ""
				if cm.Message != nil {
					msg = *cm.Message
				}
				return fmt.Sprintf("reject status=%d code=%d msg=%s %s", h.rec.Code, *cm.Code, hx([]byte(msg)), tail())
			}
			return fmt.Sprintf("reject status=%d raw=%s %s", h.rec.Code, hx(h.rec.Body.Bytes()), tail())
		}
		return fmt.Sprintf("admit status=%d %s", h.rec.Code, tail())
	}
	// WebSocket upgrade request
	c := w.wsDial(target, hdr, false)
	if c.unparseable {
		return "unparseable " + tail()
	}
	if c.noResponse {
		return "noresponse " + tail()
	}
	if c.conn == nil {
		var cm struct {
			Code    *int    `json:"code"`
			Message *string `json:"message"`
		}
		if json.Unmarshal([]byte(c.dialErr), &cm) == nil && cm.Code != nil {
			msg := ""
			if cm.Message != nil {
				msg = *cm.Message
			}
			return fmt.Sprintf("reject status=%d code=%d msg=%s %s", c.status, *cm.Code, hx([]byte(msg)), tail())
		}
		return fmt.Sprintf("reject status=%d raw=%s %s", c.status, hx([]byte(c.dialErr)), tail())
	}
	synctest.Wait()
	c.mu.Lock()
	closed := c.closed
	c.mu.Unlock()
	res := "admit ws"
	if closed != "" {
		res = "wsclosed " + closed
	}
	out := res + " " + tail()
	c.drop()
	return out
}

// ---- generator + monitor ------------------------------------------------

type admCfg struct {
	transports []string
	eio3       bool
	hook       string // none | ok | err:<hex>
	mw         string
}

func (c admCfg) line(attach, before, after string) string {
	tr := "default"
	if c.transports != nil {
		tr = strings.Join(c.transports, ",")
	}
	return fmt.Sprintf("adm cfg %s %s %s %s %s %s %s", tr, b01(c.eio3), c.hook, c.mw, attach, before, after)
}

func enabledOf(c admCfg) []string {
	if c.transports == nil {
		return []string{"polling", "websocket"}
	}
	return c.transports
}

func has(xs []string, x string) bool {
	for _, y := range xs {
		if y == x {
			return true
		}
	}
	return false
}

// expectAdm is the property's precedence list, written from the property text.
// It returns what the answer must look like: "" = admitted.
func expectAdm(c admCfg, kind, method string, tvals []string, sidKind string, sidTransport string, evals []string, origin string) (status, code int, msg string, rejected bool) {
	status, code, msg, rejected = expectAdm0(c, kind, method, tvals, sidKind, sidTransport, evals, origin)
	return
}

// silentClose: an Upgrade request that passes the request-level checks but
// names a transport that cannot be a WebSocket (e.g. transport=polling) is
// closed without a message; the property's list does not rank this case.
func silentClose(c admCfg, kind string, tvals []string) bool {
	if kind != "ws" || len(tvals) == 0 {
		return false
	}
	return tvals[len(tvals)-1] != "websocket"
}

func expectAdm0(c admCfg, kind, method string, tvals []string, sidKind string, sidTransport string, evals []string, origin string) (status, code int, msg string, rejected bool) {
	enabled := c.transports
	if enabled == nil {
		enabled = []string{"polling", "websocket"}
	}
	last := func(v []string) string {
		if len(v) == 0 {
			return ""
		}
		return v[len(v)-1]
	}
	t := last(tvals)
	upgrade := kind == "ws"
	if c.mw == "fail" {
		return 400, 3, "Bad request", true
	}
	if !has(enabled, t) || t == "webtransport" {
		return 400, 0, "Transport unknown", true
	}
	for i := 0; i < len(origin); i++ {
		if b := origin[i]; (b < ' ' || b == 0x7f) && b != '\t' {
			return 400, 3, "Bad request", true
		}
	}
	switch sidKind {
	case "unknown", "closed":
		return 400, 1, "Session ID unknown", true
	case "known":
		if !upgrade && sidTransport != t {
			return 400, 3, "Bad request", true
		}
		return 0, 0, "", false
	}
	if method != "GET" {
		return 400, 2, "Bad handshake method", true
	}
	if t == "websocket" && !upgrade {
		return 400, 3, "Bad request", true
	}
	if strings.HasPrefix(c.hook, "err:") {
		return 403, 4, string(unhx(c.hook[4:])), true
	}
	if last(evals) != "4" && !c.eio3 {
		return 400, 5, "Unsupported protocol version", true
	}
	return 0, 0, "", false
}

func famAdm(t *testing.T, r *Rec) {
	cfgs := []admCfg{}
	for _, tr := range [][]string{nil, {"polling"}, {"websocket"}, {"polling", "websocket", "webtransport"}} {
		for _, eio3 := range []bool{false, true} {
			for _, hook := range []string{"none", "ok", "err:" + hx([]byte("not today"))} {
				for _, mw := range []string{"ok", "fail"} {
					if mw == "fail" && (hook != "none" || eio3) {
						continue
					}
					cfgs = append(cfgs, admCfg{tr, eio3, hook, mw})
				}
			}
		}
	}
	// hook texts a JSON encoder has to escape: control bytes without a short escape, DEL, quote and backslash
	// (a hook that echoes a request-derived value into its error)
	cfgs = append(cfgs, admCfg{nil, false, "err:" + hx([]byte("token \x00\x07\x0b\x1b\x7f \"q\" \\ refused")), "ok"},
		admCfg{[]string{"polling", "websocket", "webtransport"}, true, "err:" + hx([]byte("\x01<\x1f>&\x7f")), "ok"})
	tvalsSet := [][]string{nil, {"polling"}, {"websocket"}, {"webtransport"}, {"flashsocket"}, {""}, {"websocket", "polling"}, {"polling", "websocket"}}
	evalsSet := [][]string{nil, {"4"}, {"3"}, {"5"}, {"3", "4"}, {"4", "3"}, {""}}
	origins := []string{"-", hx([]byte("https://a.example")), hx([]byte("http://a\x00b")), hx([]byte("a\tb c")), hx([]byte("x\x7f")), hx([]byte("x\r\ny"))}
	for ci, c := range cfgs {
		enabled := c.transports
		if enabled == nil {
			enabled = []string{"polling", "websocket"}
		}
		// sessions available in this configuration (created through admitted handshakes)
		type skind struct{ sid, kind, transport string }
		lines := []string{c.line("none", "-", "-")}
		var sids []skind
		canMk := c.mw == "ok" && !strings.HasPrefix(c.hook, "err:")
		nmk := 0
		if canMk && has(enabled, "polling") {
			lines = append(lines, "adm mk polling 4", "adm mk polling 4")
			sids = append(sids, skind{"s0", "known", "polling"}, skind{"s1", "closed", "polling"})
			nmk = 2
		}
		if canMk && has(enabled, "websocket") {
			lines = append(lines, "adm mk websocket 4")
			sids = append(sids, skind{fmt.Sprintf("s%d", nmk), "known", "websocket"})
			nmk++
		}
		if len(sids) > 1 {
			lines = append(lines, "adm kill 1")
		}
		sids = append(sids, skind{"-", "none", ""}, skind{"x" + hx([]byte("nosuchsid")), "unknown", ""})
		// a repeated sid parameter: the last value is the one that counts, for the checks and for the dispatch alike
		if nmk > 0 && has(enabled, "polling") {
			sids = append(sids, skind{"e+s0", "known", "polling"}, skind{"s0+e", "none", ""}, skind{"x" + hx([]byte("nosuchsid")) + "+s0", "known", "polling"})
		}
		type exp struct {
			status, code int
			msg          string
			rejected     bool
			key          string
			reqLine      string
		}
		var exps []exp
		pre := len(lines)
		for _, kind := range []string{"http", "ws"} {
			for _, method := range []string{"GET", "POST", "PUT"} {
				if kind == "ws" && method != "GET" {
					continue
				}
				for _, tv := range tvalsSet {
					for _, sk := range sids {
						for ei, ev := range evalsSet {
							oi := 0
							// the full product is large: vary origin and EIO fully on a rotating subset
							if (ci+ei+len(tv))%3 != 0 && ei > 2 {
								continue
							}
							if (ci+ei)%4 == 0 {
								oi = 1 + (ci+ei+len(lines))%(len(origins)-1)
							}
							if r.thorough() {
								oi = (ci + ei + len(lines)) % len(origins)
							}
							org := origins[oi]
							if kind == "ws" && oi >= 2 {
								org = origins[oi%2] // control bytes cannot be sent in a real request line
							}
							if method == "PUT" && sk.kind == "known" {
								continue // handed to the transport, which answers 500: not an admission matter
							}
							line := fmt.Sprintf("adm req %s %s %s %s %s %s", kind, method, csvHex(tv), sk.sid, csvHex(ev), org)
							orgS := ""
							if org != "-" {
								orgS = string(unhx(org))
							}
							st, code, msg, rej := expectAdm(c, kind, method, tv, sk.kind, sk.transport, ev, orgS)
							key := "admit"
							if rej {
								key = fmt.Sprintf("reject/%d", code)
							}
							key = fmt.Sprintf("%s/%s/sid=%s/mw=%s/hook=%.3s", key, kind, sk.kind, c.mw, c.hook)
							exps = append(exps, exp{st, code, msg, rej, key, line})
							lines = append(lines, line)
						}
					}
				}
			}
		}
		outs := admRun(t, lines)
		r.scenarios++
		for i, l := range lines {
			r.Op(l, outs[i])
		}
		for i, e := range exps {
			out := outs[pre+i]
			r.Cover(e.key)
			replay := append(append([]string{}, lines[:pre]...), e.reqLine)
			fs := strings.Fields(out)
			kv := map[string]string{}
			for _, x := range fs[1:] {
				if j := strings.IndexByte(x, '='); j > 0 {
					kv[x[:j]] = x[j+1:]
				}
			}
			if fs[0] == "unparseable" {
				continue // net/http refuses these request bytes before the engine sees them
			}
			ff := strings.Fields(e.reqLine)
			if kv["status"] == "501" && ff[2] == "ws" && !has(enabledOf(c), "websocket") {
				// the HTTP glue refuses every Upgrade request when the websocket transport is
				// disabled, before any engine check runs: recorded under one signature
				r.Violate("C05", "C05/upgrade-request/websocket-disabled/answered-501-text-no-event",
					"Upgrade request while the websocket transport is disabled is answered 501 Not Implemented (text, no connection_error) instead of the documented JSON error: "+out, replay)
				continue
			}
			if !e.rejected || e.code == 5 {
				if silentClose(c, ff[2], unCsvHex(ff[4])) {
					if fs[0] == "wsclosed" && kv["new"] == "0" && kv["reg"] == "same" && kv["sessions"] == "same" {
						continue
					}
				}
			}
			if e.rejected {
				want := fmt.Sprintf("status=%d code=%d msg=%s", e.status, e.code, hx([]byte(e.msg)))
				got := fmt.Sprintf("status=%s code=%s msg=%s", kv["status"], kv["code"], kv["msg"])
				if fs[0] == "wsclosed" && strings.HasPrefix(fs[1], "close:1000:") {
					// refused after the WebSocket was accepted: close message carries the text
					if fs[1] != "close:1000:"+hx([]byte(e.msg)) {
						r.Violate("C05", fmt.Sprintf("C05/late-refusal-text/code=%d", e.code), "close message "+fs[1]+" does not carry "+e.msg, replay)
					}
				} else if fs[0] != "reject" || got != want {
					r.Violate("C05", fmt.Sprintf("C05/error-table/expected-code=%d/got=%s,%s", e.code, kv["status"], kv["code"]),
						fmt.Sprintf("want %s, got: %s", want, out), replay)
				}
				if kv["cerr"] != "1" {
					r.Violate("C05", fmt.Sprintf("C05/connection_error-count/code=%d/cerr=%s", e.code, kv["cerr"]), "rejected request produced "+kv["cerr"]+" connection_error events: "+out, replay)
				}
				if kv["new"] != "0" || kv["reg"] != "same" || kv["sessions"] != "same" {
					r.Violate("C05", fmt.Sprintf("C05/reject-not-pure/code=%d", e.code), "a rejected request created or disturbed a session: "+out, replay)
				}
			} else {
				if fs[0] == "reject" {
					r.Violate("C05", fmt.Sprintf("C05/spurious-reject/got=%s,%s", kv["status"], kv["code"]), "request that passes every check was rejected: "+out, replay)
				}
				if kv["cerr"] != "0" {
					r.Violate("C05", "C05/connection_error-on-admit", "admitted request produced a connection_error: "+out, replay)
				}
			}
		}
		if len(r.samples) < 4 {
			r.Sample(lines[0] + " ; " + lines[len(lines)-1] + " => " + outs[len(outs)-1])
		}
	}
	famAdmRoute(t, r)
}

// ---- routing ----------------------------------------------------------------

// refClean is path cleaning as the property needs it (dot segments and doubled
// slashes removed, trailing slash kept), written independently of utils.CleanPath.
func refClean(p string) string {
	if p == "" {
		return "/"
	}
	if p[0] != '/' {
		p = "/" + p
	}
	trailing := strings.HasSuffix(p, "/")
	var st []string
	for _, seg := range strings.Split(p, "/") {
		switch seg {
		case "", ".":
		case "..":
			if len(st) > 0 {
				st = st[:len(st)-1]
			}
		default:
			st = append(st, seg)
		}
	}
	out := "/" + strings.Join(st, "/")
	if trailing && out != "/" {
		out += "/"
	}
	return out
}

func famAdmRoute(t *testing.T, r *Rec) {
	type at struct {
		spec   string
		engine string // the pattern the property says the engine is mounted on
	}
	ats := []at{
		{"none", "/engine.io/"},
		{"server", "/engine.io/"},
		{"opts:-:-", "/engine.io/"},
		{"opts:-:1", "/engine.io/"},
		{"opts:-:0", "/engine.io"},
		{"opts:" + hx([]byte("/eio")) + ":-", "/eio/"},
		{"opts:" + hx([]byte("/eio/")) + ":-", "/eio/"},
		{"opts:" + hx([]byte("/eio/")) + ":0", "/eio"},
		{"opts:" + hx([]byte("/a/b")) + ":1", "/a/b/"},
	}
	appSets := [][2][]string{
		{nil, nil},
		{{"/"}, nil},
		{nil, {"/"}},
		{{"/engine.io/admin/"}, {"/static/", "/engine.iox"}},
		{{"/static/"}, {"/engine.io/admin/", "/"}},
		{nil, {"/a/", "/a/b/c/", "/eio/x"}},
	}
	for _, a := range ats {
		for _, app := range appSets {
			clash := false
			for _, p := range append(append([]string{}, app[0]...), app[1]...) {
				if p == a.engine {
					clash = true
				}
			}
			if clash {
				continue
			}
			c := admCfg{nil, false, "none", "ok"}
			lines := []string{c.line(a.spec, csvHex(app[0]), csvHex(app[1]))}
			base := strings.TrimSuffix(a.engine, "/")
			paths := []string{base + "/", base, base + "/x", base + "//", base + "/./", base + "/../" + strings.TrimPrefix(base, "/") + "/",
				"/" + base + "/", strings.ToUpper(base) + "/", base + "x/", "/", "/static/app.js", base + "/admin/", base + "/admin/x", "/other", base + "/a/../",
				base + "/.", base + "/..", base + "/x/..", base + "/x/.", base + "/./.", "/..", "/."}
			var exp []string
			// the routing rule is about the cleaned path whatever the method: repeat a few paths as CONNECT / POST
			methods := make([]string, len(paths))
			for _, p := range []string{base + "/../" + strings.TrimPrefix(base, "/") + "/", "/" + base + "/", base + "/a/../", base + "/../app", "/x/.." + base + "/", base + "/"} {
				paths = append(paths, p, p)
				methods = append(methods, "CONNECT", "POST")
			}
			for pi, p := range paths {
				if methods[pi] != "" {
					lines = append(lines, "adm route "+hx([]byte(p))+" "+methods[pi])
				} else {
					lines = append(lines, "adm route "+hx([]byte(p)))
				}
				cp := refClean(p)
				// most specific registered pattern wins (exact, else longest prefix)
				all := append(append([]string{a.engine}, app[0]...), app[1]...)
				best := ""
				for _, q := range all {
					if q == cp {
						best = q
						break
					}
				}
				if best == "" {
					for _, q := range all {
						if strings.HasSuffix(q, "/") && strings.HasPrefix(cp, q) && len(q) > len(best) {
							best = q
						}
					}
				}
				switch best {
				case "":
					exp = append(exp, "default")
				case a.engine:
					exp = append(exp, "engine")
				default:
					exp = append(exp, "app:"+best)
				}
			}
			outs := admRun(t, lines)
			r.scenarios++
			for i, l := range lines {
				r.Op(l, outs[i])
			}
			if outs[0] != "ok" {
				r.Violate("C05", "C05/attach/"+strings.SplitN(a.spec, ":", 2)[0]+"/"+strings.SplitN(outs[0], ":", 3)[0], fmt.Sprintf("attaching the engine (%s) does not give a server: %s", a.spec, outs[0]), lines[:1])
				continue
			}
			for i, p := range paths {
				out := outs[1+i]
				r.Cover(fmt.Sprintf("route/%s/apps=%d+%d/%s", a.spec[:4], len(app[0]), len(app[1]), exp[i][:3]))
				if out != exp[i] {
					which := "other"
					switch {
					case exp[i] == "engine" && len(app[0])+len(app[1]) == 0:
						which = "engine-not-reached/no-app-patterns/attach=" + strings.SplitN(a.spec, ":", 2)[0]
					case exp[i] == "engine":
						which = "engine-shadowed-by-app-pattern"
					case out == "engine":
						which = "engine-took-app-request"
					}
					r.Violate("C05", "C05/route/"+which, fmt.Sprintf("path %q (clean %q), engine mounted per options at %q: served by %s, want %s", p, refClean(p), a.engine, out, exp[i]),
						[]string{lines[0], lines[1+i]})
				}
			}
		}
	}
}
